"""C07 - Askaryan pulses: scaling laws and graceful failure (DESIGN 3/C07).

Every clause of the statement is a relation between two (or more) pulses that
differ in one argument, so no oracle needs the parameterisations themselves:

  inverse_distance  v(R) * R           == v(R') * R'
  angle_sign        v(-theta)          == v(theta)
  joint_shift       v(times+s, t0+s)   == v(times, t0)
  sample_shift      v(t0 + k dt)[i]    == v(t0)[i-k]
  finite            all values finite, len(values) == len(times)
  zero_energy       shower energy 0 -> exactly-zero array of len(times)
  cone_peak         peak(theta_c) >= peak(d1) > peak(d2) > ... on either side
  em_linear         had_frac = 0, theta = theta_c: peak(E2)/peak(E1) == E2/E1

Time grids are *dyadic by construction* (dt = 2**-k, every grid time, shower
time and shift an integer multiple of dt/16), so that ``times - t0`` is exact in
floating point and the shift relations can be asserted at rounding level rather
than with a tolerance that would hide whole-sample errors.
"""

import math
import re

import numpy as np
from hypothesis import strategies as st

from ..core import Property, SubCheck, Violation, require
from .. import gens
from ..gens import floats, log_floats

C_LIGHT = 299792458.0
DEG = math.pi / 180.0
MODELS = ["ZHS", "AVZ", "ARZ"]

# Shower energies (GeV) at which the ARZ profiles switch off (documented
# defaults of em_shower_profile / had_shower_profile).  Used only to keep the
# *generator* away from the pole of ARZ's step-size rule at the EM critical
# energy (cost, not correctness) - never in an oracle.
EM_CRIT = 7.86e-2
HAD_CRIT = 17.006e-2

# tolerances (fractions of the larger peak of the two compared pulses)
TOL_LINEAR = 1e-12   # products/quotients and FFT linearity: a few hundred ulp
TOL_EXACT = 1e-13    # relations that are the identical computation on exact inputs
# ARZ evaluates R*A_C only within +-10 ns of the shower time and treats it as
# zero outside; the position of that cut relative to the samples moves by one
# fine sample when t0 moves, which changes the pulse by at most the relative
# height of R*A_C at 10 ns (hadronic: (1+30)^-2.65 / 2 = 5.6e-5).
TOL_ARZ_WINDOW = 5e-4   # (1.1e-4 was observed on a 4-sample window that only sees the tail of a wide pulse)
# far off the cone on coarse grids ZHS amplitudes reach the subnormal range
# (< 2.2e-308), where doubles have no relative precision left
ABS_FLOOR = 1e-290


# ---------------------------------------------------------------------------
# building pyrex objects from a case


def _cls(model):
    import pyrex.askaryan as ask
    return {"ZHS": ask.ZHSAskaryanSignal, "AVZ": ask.AVZAskaryanSignal,
            "ARZ": ask.ARZAskaryanSignal}[model]


def _particle(E, em, had, z):
    from pyrex.particle import Particle
    # the constructor draws an inelasticity from the global RNG; the drawn
    # fractions are overwritten below, the seed only keeps the RNG stream fixed
    np.random.seed(20070)
    p = Particle(particle_id=Particle.Type.electron_neutrino, vertex=(0.0, 0.0, z),
                 direction=(0.0, 0.0, 1.0), energy=1e9, interaction_type="cc")
    p.energy = E
    p.interaction.em_frac = em
    p.interaction.had_frac = had
    return p


def _times(grid, m16=0):
    """dt*(i0 + m16/16 + arange(n)), exactly (integers times a power of two)."""
    dt16 = 2.0 ** -(grid["k"] + 4)
    ticks = 16 * (grid["i0"] + np.arange(grid["n"], dtype=np.int64)) + m16
    return ticks.astype(float) * dt16


def _t0(grid, t0, m16=0, k=0):
    dt16 = 2.0 ** -(grid["k"] + 4)
    return float(16 * (grid["i0"] + t0["j"] + k) + t0["f"] + m16) * dt16


def _theta_c(base):
    n = gens.ref_index(base["ice"], base["z"])
    return math.acos(1.0 / n), n


def _theta(base, angle=None):
    """Viewing angle (rad) of an angle spec: sign * (theta_c + side*delta)."""
    a = base["angle"] if angle is None else angle
    thc, _ = _theta_c(base)
    if a["kind"] == "zero":
        th = 0.0
    elif a["kind"] == "pi":
        th = math.pi
    elif a["kind"] == "cone":
        th = thc
    else:
        th = thc + a["side"] * a["delta_deg"] * DEG
        th = min(math.pi, max(0.0, th))
    return a["sign"] * th


def _values(base, times, t0, theta=None, R="case", E=None, em=None, had=None):
    """Construct the signal and return .values after the always-on checks."""
    cls = _cls(base["model"])
    ice = gens.build_ice(base["ice"])
    p = _particle(base["E"] if E is None else E, base["em"] if em is None else em,
                  base["had"] if had is None else had, base["z"])
    if theta is None:
        theta = _theta(base)
    if R == "case":
        R = base["R"]
    kw = {}
    if R is not None:
        kw["viewing_distance"] = R
    sig = cls(times, p, theta, ice_model=ice, t0=t0, **kw)
    v = sig.values
    require(isinstance(v, np.ndarray) and v.shape == (len(times),),
            "%s: values has shape %r for %d times", base["model"], np.shape(v), len(times))
    require(bool(np.all(np.isfinite(v))),
            "%s: %d non-finite values (theta=%r, t0=%r)", base["model"],
            int(np.sum(~np.isfinite(v))), theta, t0)
    return np.array(v, dtype=float)


def _peak(v):
    return float(np.max(np.abs(v))) if len(v) else 0.0


def _inside(v, margin=5):
    """Pulse peak at least `margin` samples away from both ends of the window."""
    if _peak(v) == 0.0:
        return False
    i = int(np.argmax(np.abs(v)))
    return margin <= i < len(v) - margin


def _maxdiff(a, b):
    return float(np.max(np.abs(a - b))) if len(a) else 0.0


def _full_peak(base, **kw):
    """
    Peak of the same pulse when the shower time is the middle of the window.
    Rounding errors of the FFT-based models are relative to the size of the
    whole pulse, not to the part of its tail that happens to be visible, so
    comparisons of windows that contain only a tail use this as their scale.
    """
    g = base["grid"]
    v = _values(base, _times(g), _t0(g, dict(j=g["n"] // 2, f=0)), **kw)
    peak = _peak(v)
    if base["model"] == "ARZ" and g["n"] * 2.0 ** -g["k"] < 20e-9:
        # a window shorter than ARZ's own +-10 ns evaluation span can sit on the zero crossing of
        # the bipolar pulse even when centred (seen: 4 samples of 0.06 ns, peak 2.7e-26 of a pulse
        # whose size is orders above): size of the whole pulse from 256 samples over +-15 ns
        wide = dict(n=256, k=33, i0=-128)          # dt = 2^-33 s = 0.116 ns
        v2 = _values(base, _times(wide), 0.0, **kw)
        peak = max(peak, _peak(v2))
    return peak


def _close(a, b, tol, base, mult=1.0, **kw):
    """max|a-b| <= tol * scale; returns (ok, difference, scale)."""
    d = _maxdiff(a, b)
    scale = max(_peak(a), _peak(b))
    if d <= tol * scale + ABS_FLOOR:
        return True, d, scale
    scale = max(scale, mult * _full_peak(base, **kw))
    return d <= tol * scale + ABS_FLOOR, d, scale


# ---------------------------------------------------------------------------
# generators


def _arz_length(e):
    """|depth of shower maximum| (m) as ARZ's step rule uses it: X0 ln(E/Ec)/ln2/rho."""
    return abs(0.01 * 36.08 * math.log(e / EM_CRIT) / math.log(2) / 0.92)


def _big(draw):
    # >= 3 GeV: above the band (0.17, 2.96) GeV in which ARZ's Gaisser-Hillas
    # profile is undefined (shower maximum shallower than one interaction
    # length); that band is generated by the `finite` sub-check only, so that
    # this one root cause cannot mask the other clauses
    return draw(log_floats(3.0, 1e12))


def _small(draw):
    # below both critical energies (no shower develops), or between the EM
    # (0.0786) and hadronic (0.170 GeV) critical energies
    return draw(st.one_of(log_floats(1e-6, 0.05), floats(0.1, 0.16)))


@st.composite
def _energies(draw, em_only=False, low_had=False):
    """Particle energy and (em_frac, had_frac), total shower energy > 0."""
    patterns = ["em", "had", "both", "both", "both", "tiny_had", "tiny_em", "all_tiny"]
    if low_had:
        patterns += ["low_had", "low_had"]
    pattern = "em" if em_only else draw(st.sampled_from(patterns))
    if pattern == "em":
        em_t, had_t = _big(draw), 0.0
    elif pattern == "had":
        em_t, had_t = 0.0, _big(draw)
    elif pattern == "both":
        em_t, had_t = _big(draw), _big(draw)
    elif pattern == "tiny_had":
        em_t, had_t = _big(draw), _small(draw)
    elif pattern == "tiny_em":
        em_t, had_t = _small(draw), _big(draw)
    elif pattern == "all_tiny":
        em_t, had_t = _small(draw), _small(draw)
    else:
        em_t = draw(st.sampled_from([0.0, 1.0, 50.0]))
        had_t = draw(floats(0.18, 2.9))
    u = draw(st.sampled_from([1.0, 1.0, 0.5, 0.8125]))
    E = (em_t + had_t) / u
    return dict(E=E, em=em_t / E, had=had_t / E, pattern=pattern)


@st.composite
def _ice_and_depth(draw):
    spec = draw(gens.exp_ice_specs(custom=True, boundary_indices=False))
    lo, hi = spec["range"]
    kind = draw(st.sampled_from(["deep", "shallow", "any"]))
    if kind == "deep":
        z = lo + (hi - lo) * draw(floats(0.0, 0.5))
    elif kind == "shallow":
        z = max(lo, hi - draw(log_floats(0.01, 100.0)))
    else:
        z = lo + (hi - lo) * draw(floats(0.0, 1.0))
    return spec, z


def _grid(draw, model, min_n=4, max_n=1024, fine=False):
    """Dyadic grid spec {n, k, i0}: times = 2**-k * (i0 + arange(n))."""
    n = draw(st.one_of(st.integers(min_n, max(min_n, min(max_n, 48))),
                       st.integers(min(16, max_n), max_n), st.integers(min(16, max_n), max_n)))
    if model == "ARZ" or fine:
        # ARZ oversamples to <= 10 ps: cost grows with dt; 0.06 .. 0.47 ns
        k = draw(st.integers(31, 34))
    else:
        k = draw(st.one_of(st.integers(31, 34), st.integers(20, 36)))
    i0 = draw(st.one_of(st.just(0), st.integers(-1000, 1000),
                        st.integers(-10**6, 10**6)))
    return dict(n=n, k=k, i0=i0)


def _shower_time(draw, n, inside_only=False):
    """Shower time relative to the first sample: t0 = dt*(i0 + j + f/16)."""
    f = draw(st.sampled_from([0, 0, 8, 1, 5, 15]))
    if inside_only:
        j = draw(st.integers(min(5, n // 2), max(n // 2, n - 6)))
        return dict(j=j, f=f)
    kind = draw(st.sampled_from(["mid", "mid", "mid", "in", "in", "in", "edge", "near", "far"]))
    if kind == "mid":
        j = draw(st.integers(min(5, n // 2), max(n // 2, n - 6)))
    elif kind == "in":
        j = draw(st.integers(0, n - 1))
    elif kind == "edge":
        j = draw(st.sampled_from([-1, 0, n - 2, n - 1, n]))
    elif kind == "near":
        j = draw(st.integers(-2 * n, 3 * n))
    else:
        j = draw(st.sampled_from([-1, 1])) * draw(st.integers(3 * n, 10**6))
    return dict(j=j, f=f)


ARZ_BUDGET = 1.5e6   # samples of ARZ's oversampled trace (n * dt_divider)


def _arz_min_delta(base, n_samples):
    """
    Smallest |theta - theta_c| (deg, per side) keeping ARZ's oversampled trace
    below ARZ_BUDGET samples.  ARZ divides dt until dz <= max_length/100, i.e.
    by 100 dt c / (L |1 - n cos(theta)|): the cost diverges at the cone.
    Returns (min_delta_below, min_delta_above); None when a side is infeasible.
    """
    dt = 2.0 ** -base["grid"]["k"]
    L = min(_arz_lengths(base))
    g = 100.0 * dt * C_LIGHT * (n_samples + 1) / (L * ARZ_BUDGET)   # |1 - n cos(theta)| >= g
    return _delta_for(base, g)


def _arz_lengths(base):
    return [_arz_length(e) for e in (base["E"] * base["em"], base["E"] * base["had"]) if e > 0]


def _delta_for(base, g):
    """Smallest delta (deg) below / above the cone with |1 - n cos(theta)| >= g (None: none)."""
    thc, n = _theta_c(base)
    above = None
    if (1 - g) / n >= -1:
        above = max(0.0, math.acos(max(-1.0, (1 - g) / n)) - thc) / DEG
    below = None
    if (1 + g) / n <= 1:
        below = max(0.0, thc - math.acos((1 + g) / n)) / DEG
    return below, above


def _angle(draw, base, off_only=False, cone_only=False):
    """Angle spec; for ARZ off-cone angles respect the cost bound by construction."""
    thc, n = _theta_c(base)
    sign = draw(st.sampled_from([1, 1, -1]))
    if cone_only:
        return dict(kind="cone", side=1, delta_deg=0.0, sign=sign)
    kinds = ["off", "off", "off", "off"]
    if not off_only:
        kinds += ["cone", "cone", "zero", "pi"]
    kind = draw(st.sampled_from(kinds))
    if kind != "off":
        return dict(kind=kind, side=1, delta_deg=0.0, sign=sign)
    side = draw(st.sampled_from([1, -1]))
    delta = draw(st.one_of(st.sampled_from([0.1, 0.3, 1.0, 3.0, 10.0, 30.0, 60.0]),
                           log_floats(0.1, 60.0)))
    if base["model"] == "ARZ":
        below, above = _arz_min_delta(base, base["grid"]["n"])
        lim = below if side < 0 else above
        if lim is None or (side < 0 and lim >= thc / DEG):
            side = 1 if above is not None else -1
            lim = above if side > 0 else below
        if lim is None:
            return dict(kind="zero", side=1, delta_deg=0.0, sign=sign)
        delta = max(delta, lim * 1.01 + 1e-6)
    return dict(kind="off", side=side, delta_deg=delta, sign=sign)


def _fit_arz_grid(base):
    """Shrink n (deterministically) until an ARZ off-cone angle exists at all."""
    if base["model"] != "ARZ":
        return
    while base["grid"]["n"] > 8:
        below, above = _arz_min_delta(base, base["grid"]["n"])
        if above is not None and above < 100.0:
            return
        base["grid"]["n"] = max(8, base["grid"]["n"] // 2)


@st.composite
def _base(draw, models=MODELS, em_only=False, cone_only=False, off_only=False,
          inside_only=False, min_n=4, max_n=1024, fine=False, low_had=False):
    model = draw(st.sampled_from(models))
    base = dict(model=model)
    base.update(draw(_energies(em_only=em_only, low_had=low_had)))
    base["ice"], base["z"] = draw(_ice_and_depth())
    base["grid"] = _grid(draw, model, min_n=min_n, max_n=max_n, fine=fine)
    _fit_arz_grid(base)
    base["t0"] = _shower_time(draw, base["grid"]["n"], inside_only=inside_only)
    base["angle"] = _angle(draw, base, off_only=off_only, cone_only=cone_only)
    base["R"] = draw(st.one_of(log_floats(1.0, 1e4), st.sampled_from([1.0, 100.0, 1000.0])))
    return base


def _classes(base, v=None):
    cl = [base["model"], base["model"] + ":" + base["angle"]["kind"],
          "odd_n" if base["grid"]["n"] % 2 else "even_n",
          "pattern:" + base["pattern"]]
    if base["angle"]["sign"] < 0:
        cl.append("negative_angle")
    j = base["t0"]["j"]
    cl.append("t0_inside" if 0 <= j < base["grid"]["n"] else "t0_outside")
    if base["t0"]["f"]:
        cl.append("t0_off_grid")
    if v is not None:
        if _peak(v) > 0:
            cl.append("nonzero")
        if _inside(v):
            cl.append("peak_inside")
    return cl


# ---------------------------------------------------------------------------
# inverse_distance


@st.composite
def distance_cases(draw):
    base = draw(_base())
    R2 = draw(st.one_of(st.just(None), log_floats(1.0, 1e4), log_floats(1.0, 1e4)))
    return dict(base=base, R2=R2)


def check_inverse_distance(case, rec):
    base = case["base"]
    times, t0 = _times(base["grid"]), _t0(base["grid"], base["t0"])
    v1 = _values(base, times, t0)
    v2 = _values(base, times, t0, R=case["R2"])      # None: the default distance of 1 m
    R1 = base["R"]
    R2 = 1.0 if case["R2"] is None else case["R2"]
    a, b = v1 * R1, v2 * R2
    ok, d, scale = _close(a, b, TOL_LINEAR, base, mult=R1)
    require(ok, "%s: field*distance differs between R=%r and R=%r: max |v1 R1 - v2 R2| = %.3g, "
            "peak*R = %.3g / %.3g, full pulse %.3g (theta=%r)", base["model"], R1, case["R2"],
            d, _peak(a), _peak(b), scale, _theta(base))
    cl = _classes(base, v1)
    if case["R2"] is None:
        cl.append("default_distance")
    if base["em"] > 0 and base["had"] > 0:
        cl.append("two_showers")
    rec.case(case, nontrivial=_inside(v1) and R1 != R2, classes=cl)


# ---------------------------------------------------------------------------
# angle_sign


@st.composite
def sign_cases(draw):
    base = draw(_base())
    base["angle"]["sign"] = 1
    return dict(base=base)


def check_angle_sign(case, rec):
    base = case["base"]
    times, t0 = _times(base["grid"]), _t0(base["grid"], base["t0"])
    th = abs(_theta(base))
    vp = _values(base, times, t0, theta=th)
    vm = _values(base, times, t0, theta=-th)
    ok, d, scale = _close(vp, vm, TOL_EXACT, base, theta=th)
    require(ok, "%s: pulse depends on the sign of the viewing angle: theta=%r gives peak %.6g, "
            "-theta gives peak %.6g (max difference %.3g; theta_c=%r)", base["model"], th,
            _peak(vp), _peak(vm), d, _theta_c(base)[0])
    rec.case(case, nontrivial=_inside(vp) and th != 0.0, classes=_classes(base, vp))


def classify_sign(case, exc):
    base = case.get("base", {})
    if base.get("model") == "ZHS" and isinstance(exc, Violation) \
            and "sign of the viewing angle" in str(exc):
        return "ZHS cone factor uses signed viewing_angle"
    return None


# ---------------------------------------------------------------------------
# joint_shift


@st.composite
def joint_cases(draw):
    base = draw(_base())
    kind = draw(st.sampled_from(["samples", "samples", "sub", "big"]))
    if kind == "samples":
        m16 = 16 * draw(st.integers(-2000, 2000))
    elif kind == "sub":
        m16 = draw(st.integers(-16 * 50, 16 * 50))
    else:
        m16 = 16 * draw(st.integers(-10**7, 10**7))
    return dict(base=base, m16=m16)


def check_joint_shift(case, rec):
    base = case["base"]
    g, m16 = base["grid"], case["m16"]
    v1 = _values(base, _times(g), _t0(g, base["t0"]))
    v2 = _values(base, _times(g, m16), _t0(g, base["t0"], m16))
    # times - t0 is exact on dyadic grids: the two computations are identical
    ok, d, scale = _close(v1, v2, TOL_EXACT, base)
    require(ok, "%s: shifting the grid and t0 together by %r/16 samples changes the pulse: "
            "max difference %.3g, peaks %.6g / %.6g at samples %d / %d", base["model"], m16,
            d, _peak(v1), _peak(v2),
            int(np.argmax(np.abs(v1))), int(np.argmax(np.abs(v2))))
    cl = _classes(base, v1)
    cl.append("whole_samples" if m16 % 16 == 0 else "sub_sample")
    rec.case(case, nontrivial=_inside(v1) and m16 != 0, classes=cl)


# ---------------------------------------------------------------------------
# sample_shift


@st.composite
def sample_cases(draw):
    """
    Both shower times lie at most a quarter window outside the grid: further
    out (half a window before, 1.5 windows after the first sample) the models
    replace the remaining tail by exact zeros ("all field values would be
    zero"), which is a stated approximation, not a whole-sample move.
    """
    base = draw(_base())
    n = base["grid"]["n"]
    lo, hi = -(n // 4), n + n // 4
    kind = draw(st.sampled_from(["in", "in", "in", "start", "any"]))
    if kind == "in":
        j = draw(st.integers(0, n - 1))
    elif kind == "start":
        j = draw(st.integers(max(lo, -3), 2))
    else:
        j = draw(st.integers(lo, hi))
    base["t0"]["j"] = j
    small = draw(st.booleans())
    j2 = draw(st.integers(max(lo, j - 3), min(hi, j + 3)) if small else st.integers(lo, hi))
    if j2 == j:
        j2 = j + 1
    return dict(base=base, k=j2 - j)


def check_sample_shift(case, rec):
    base = case["base"]
    g, k = base["grid"], case["k"]
    n = g["n"]
    times = _times(g)
    v0 = _values(base, times, _t0(g, base["t0"]))
    vk = _values(base, times, _t0(g, base["t0"], k=k))
    if k >= 0:
        a, b = vk[k:], v0[:max(0, n - k)]
    else:
        a, b = vk[:max(0, n + k)], v0[-k:]
    tol = TOL_ARZ_WINDOW if (base["model"] == "ARZ" and base["angle"]["kind"] != "cone") \
        else TOL_LINEAR
    ok, d, scale = _close(a, b, tol, base)
    where = int(np.argmax(np.abs(a - b))) if len(a) else -1
    require(ok,
            "%s: moving t0 by %d samples does not move the pulse by %d samples: "
            "max |v(t0+k dt)[i+k] - v(t0)[i]| = %.3g at i=%d of %d compared "
            "(peaks %.6g at %d / %.6g at %d, n=%d, t0 index %r+%r/16)",
            base["model"], k, k, d, where, len(a), _peak(v0), int(np.argmax(np.abs(v0))),
            _peak(vk), int(np.argmax(np.abs(vk))), n, base["t0"]["j"], base["t0"]["f"])
    cl = _classes(base, v0)
    cl.append("forward" if k > 0 else "backward")
    rec.case(case, nontrivial=_inside(v0) and _inside(vk), classes=cl)


def classify_sample(case, exc):
    base = case.get("base", {})
    if not isinstance(exc, Violation) or base.get("model") != "AVZ":
        return None
    g = base["grid"]
    m = re.search(r"at i=(-?\d+) of (\d+) compared", str(exc))
    if g["n"] % 2 == 1 and m and int(m.group(1)) == int(m.group(2)) - 1:
        # the largest mismatch is the last sample of the later pulse
        return "AVZ odd length: last sample extrapolated, trace one sample short"
    j, f, k = base["t0"]["j"], base["t0"]["f"], case.get("k", 0)
    if f and min(j, j + k) < 0 <= max(j, j + k):
        # t0 - times[0] changes sign with a fractional part: int(-0.5) == int(0.5) == 0
        return "AVZ t0 crosses the first sample: int() truncates toward zero"
    return None


# ---------------------------------------------------------------------------
# finite (broadest domain, generic float grids too)


@st.composite
def finite_cases(draw):
    base = draw(_base(low_had=True))
    generic = None
    if draw(st.integers(0, 2)) == 0:
        # arbitrary (non-dyadic) step, offset and shower time
        lo, hi = (5e-11, 1.5e-9) if base["model"] == "ARZ" else (5e-11, 1e-6)
        dt = draw(log_floats(lo, hi))
        if base["model"] == "ARZ":
            dt = min(dt, 2.0 ** -base["grid"]["k"])   # keep the cost bound of _angle valid
        n = base["grid"]["n"]
        start = draw(st.one_of(st.just(0.0), floats(-1e-5, 1e-5)))
        t0 = start + dt * draw(st.one_of(floats(0.0, float(n)), floats(-3.0 * n, 4.0 * n)))
        generic = dict(dt=dt, start=start, t0=t0)
    return dict(base=base, generic=generic)


def check_finite(case, rec):
    base = case["base"]
    gen = case["generic"]
    if gen is None:
        times, t0 = _times(base["grid"]), _t0(base["grid"], base["t0"])
    else:
        times = gen["start"] + gen["dt"] * np.arange(base["grid"]["n"])
        t0 = gen["t0"]
    v = _values(base, times, t0)       # shape and finiteness are required inside
    cl = _classes(base, v)
    cl.append("generic_grid" if gen is not None else "dyadic_grid")
    rec.case(case, nontrivial=_peak(v) > 0, classes=cl)


def classify_finite(case, exc):
    base = case.get("base", {})
    e_had = base.get("E", 0) * base.get("had", 0)
    # x_max = 39.562 ln(E/0.17006) g/cm^2 < int_length = 113.03 g/cm^2
    if base.get("model") == "ARZ" and isinstance(exc, Violation) \
            and "non-finite" in str(exc) and HAD_CRIT < e_had < HAD_CRIT * math.exp(113.03 / 39.562):
        return "ARZ hadronic shower energy in (0.17, 2.96) GeV: Gaisser-Hillas profile NaN"
    return None


# ---------------------------------------------------------------------------
# zero_energy


@st.composite
def zero_cases(draw):
    base = draw(_base())
    how = draw(st.sampled_from(["fractions", "fractions", "energy", "both"]))
    if how in ("fractions", "both"):
        base["em"], base["had"] = 0.0, 0.0
    if how in ("energy", "both"):
        base["E"] = 0.0
    base["pattern"] = "zero:" + how
    as_list = draw(st.booleans())
    return dict(base=base, how=how, times_as_list=as_list)


def check_zero_energy(case, rec):
    base = case["base"]
    times, t0 = _times(base["grid"]), _t0(base["grid"], base["t0"])
    arg = [float(t) for t in times] if case["times_as_list"] else times
    cls = _cls(base["model"])
    ice = gens.build_ice(base["ice"])
    p = _particle(base["E"], base["em"], base["had"], base["z"])
    sig = cls(arg, p, _theta(base), viewing_distance=base["R"], ice_model=ice, t0=t0)
    v = sig.values
    require(isinstance(v, np.ndarray) and v.shape == (len(times),),
            "%s: zero-energy shower gives values of shape %r for %d times",
            base["model"], np.shape(v), len(times))
    require(bool(np.all(v == 0)),
            "%s: zero-energy shower gives a non-zero field (max |v| = %r)",
            base["model"], float(np.max(np.abs(v))))
    require(len(sig.times) == len(times) and bool(np.all(sig.times == times)),
            "%s: zero-energy signal changed its times", base["model"])
    rec.case(case, nontrivial=True, classes=_classes(base) + ["zero:" + case["how"]])


def classify_zero(case, exc):
    base = case.get("base", {})
    if base.get("model") == "ZHS" and isinstance(exc, TypeError) \
            and "not callable" in str(exc):
        return "model=ZHS,energy=0: ndarray passed as function"
    return None


# ---------------------------------------------------------------------------
# cone_peak
#
# "Amplitude" is max |v| of a pulse that is resolved by the grid and lies in the
# window.  ZHS and AVZ are band-limited to the grid by construction; their cone
# factor is a Gaussian in frequency, i.e. a smoothing in time, which cannot
# raise the maximum - except for AVZ's sin(theta)/sin(theta_c) prefactor, which
# on a coarse grid (>= 0.47 ns, band < 1 GHz) outweighs the Gaussian by a few
# per mille just above the cone (measured: +0.4 % at dt = 0.47 ns, n = 1.05;
# none at dt <= 0.23 ns).  ARZ pulses are 0.03-0.06 ns wide on the cone and
# about 0.3 L |1 - n cos(theta)| / c wide off it (L = depth of shower maximum):
# sampled more coarsely than that, max |v| depends on where the samples fall
# (measured: factor 4 at dt = 0.23 ns on the cone, 12 % at dt = 14.5 ps).  So
#   ZHS, AVZ : dt = 0.06 .. 0.23 ns, ladder starts on the cone;
#   ARZ near : dt = 1.8 .. 7.3 ps, ladder starts on the cone, rungs while the
#              pulse (1.5 L |1 - n cos(theta)| / c long) fits into the window;
#   ARZ far  : dt = 0.06 .. 0.47 ns, rungs from where the pulse is >= 2 dt wide.


def _arz_delay(base, delta_deg, side):
    """Largest |arrival-time offset| (s) of emission from within 1.5 shower-max depths."""
    thc, n = _theta_c(base)
    th = min(math.pi, max(0.0, thc + side * delta_deg * DEG))
    return 1.5 * max(_arz_lengths(base)) * abs(1 - n * math.cos(th)) / C_LIGHT


@st.composite
def cone_cases(draw):
    model = draw(st.sampled_from(MODELS))
    base = dict(model=model)
    pattern = draw(st.sampled_from(["em", "had", "both"]))
    em_t = draw(log_floats(1e3, 1e12)) if pattern != "had" else 0.0
    had_t = draw(log_floats(1e3, 1e12)) if pattern != "em" else 0.0
    base.update(E=em_t + had_t, em=em_t / (em_t + had_t), had=had_t / (em_t + had_t),
                pattern=pattern)
    base["ice"], base["z"] = draw(_ice_and_depth())
    regime = "plain"
    if model == "ARZ":
        regime = draw(st.sampled_from(["near", "far"]))
    if regime == "near":
        n, k = draw(st.integers(512, 2048)), draw(st.integers(37, 39))
    elif regime == "far":
        n, k = draw(st.integers(128, 1024)), draw(st.integers(31, 34))
    else:
        n, k = draw(st.integers(128, 1024)), draw(st.integers(32, 34))
    base["grid"] = dict(n=n, k=k, i0=draw(st.integers(-1000, 1000)))
    # shower time near the middle of the window, on or off the grid
    base["t0"] = dict(j=n // 2 + draw(st.integers(-(n // 8), n // 8)),
                      f=draw(st.sampled_from([0, 0, 8, 3, 13])))
    base["R"] = draw(log_floats(1.0, 1e4))
    sign = draw(st.sampled_from([1, 1, 1, -1]))
    base["angle"] = dict(kind="cone", side=1, delta_deg=0.0, sign=sign)
    thc, _ = _theta_c(base)
    dt = 2.0 ** -k
    room = (min(base["t0"]["j"], n - base["t0"]["j"]) - 12) * dt
    ladders = {}
    for side, name in ((1, "above"), (-1, "below")):
        span = (180.0 - thc / DEG) if side > 0 else thc / DEG
        d = draw(st.one_of(st.sampled_from([0.1, 0.2, 0.5]), log_floats(0.1, 20.0)))
        if model == "ARZ":
            lims = [_arz_min_delta(base, n)[0 if side < 0 else 1]]
            if regime == "far":
                # pulse at least 2 samples wide: 0.3 L |1 - n cos(theta)| / c >= 2 dt
                g = 2 * dt * C_LIGHT / (0.3 * min(_arz_lengths(base)))
                lims.append(_delta_for(base, g)[0 if side < 0 else 1])
            if any(x is None for x in lims):
                ladders[name] = []
                continue
            d = max(d, max(lims) * 1.01 + 1e-6)
        rungs = []
        while d <= span and len(rungs) < 6:
            if model == "ARZ" and _arz_delay(base, d, side) > room:
                break
            rungs.append(d)
            d = 1.5 * d + 0.25 + draw(floats(0.0, 1.0)) * d
        ladders[name] = rungs
    return dict(base=base, regime=regime, ladders=ladders)


# "falls": the next rung of the ladder must be lower by more than rounding
FALL_MARGIN = 1e-9
# "largest on the cone": the first rung may not exceed the on-cone amplitude by
# more than this (residual sampling dependence of the narrow on-cone pulse)
CONE_SLACK = 0.01


def check_cone_peak(case, rec):
    base = case["base"]
    g = base["grid"]
    times, t0 = _times(g), _t0(g, base["t0"])
    sign = base["angle"]["sign"]
    thc = _theta_c(base)[0]
    v_c = _values(base, times, t0, theta=sign * thc)
    p_c = _peak(v_c)
    require(p_c > 0, "%s: no field on the Cherenkov cone for shower energies %r / %r GeV",
            base["model"], base["E"] * base["em"], base["E"] * base["had"])
    cl = _classes(base, v_c) + ["regime:" + case["regime"]]
    compared = 0
    cone_ok = case["regime"] != "far" and _inside(v_c)
    if not _inside(v_c):
        cl.append("cone_peak_cut")
    for name, side in (("above", 1), ("below", -1)):
        prev_p, prev_d = (p_c, 0.0) if cone_ok else (None, None)
        for d in case["ladders"][name]:
            th = sign * min(math.pi, max(0.0, thc + side * d * DEG))
            v = _values(base, times, t0, theta=th)
            p = _peak(v)
            if p > 0 and not _inside(v):
                # the visible maximum sits at the window edge: peak not observable
                cl.append("rung_cut")
                prev_p, prev_d = None, None
                continue
            if prev_p is not None and prev_d == 0.0:
                compared += 1
                require(p <= prev_p * (1 + CONE_SLACK),
                        "%s: amplitude %.6g at %r deg %s the cone exceeds the on-cone "
                        "amplitude %.6g (theta_c=%r rad, sign %d)", base["model"], p, d,
                        name, prev_p, thc, sign)
            elif prev_p is not None and prev_p > 1e-250:
                # (further out both may underflow to exactly zero)
                compared += 1
                require(p < prev_p * (1 - FALL_MARGIN),
                        "%s: amplitude does not fall with angular distance %s the cone: "
                        "%.9g at %r deg, %.9g at %r deg (on cone %.6g, sign %d)",
                        base["model"], name, prev_p, prev_d, p, d, p_c, sign)
            prev_p, prev_d = p, d
        cl.append("rungs_%s>=2" % name if len(case["ladders"][name]) >= 2 else
                  "rungs_%s<2" % name)
    rec.case(case, nontrivial=compared >= 2, classes=cl)


def classify_cone(case, exc):
    base = case.get("base", {})
    if base.get("model") == "ZHS" and base.get("angle", {}).get("sign") == -1 \
            and isinstance(exc, Violation):
        return "ZHS cone factor uses signed viewing_angle"
    return None


# ---------------------------------------------------------------------------
# em_linear


@st.composite
def linear_cases(draw):
    base = draw(_base(em_only=True, cone_only=True, inside_only=True, min_n=16))
    factor = draw(st.one_of(log_floats(1.0 + 1e-6, 1e6), st.sampled_from([2.0, 10.0, 1e3]),
                            log_floats(1e-6, 1.0 - 1e-6)))
    u2 = draw(st.sampled_from([1.0, 1.0, 0.5, 0.7]))
    return dict(base=base, factor=factor, em2=u2)


def check_em_linear(case, rec):
    base = case["base"]
    times, t0 = _times(base["grid"]), _t0(base["grid"], base["t0"])
    E1 = base["E"] * base["em"]
    E2 = E1 * case["factor"]
    v1 = _values(base, times, t0)
    # same shower energy route through a different (energy, em_frac) split
    v2 = _values(base, times, t0, E=E2 / case["em2"], em=case["em2"], had=0.0)
    p1, p2 = _peak(v1), _peak(v2)
    visible = 0 <= base["t0"]["j"] < base["grid"]["n"]
    if visible and base["grid"]["n"] >= 16:
        require(p1 > 0 and p2 > 0,
                "%s: electromagnetic shower of %r / %r GeV viewed on the cone gives no field "
                "(peaks %r / %r)", base["model"], E1, E2, p1, p2)
    # shower energies as pyrex forms them (energy * em_frac), to the ulp
    e1 = base["E"] * base["em"]
    e2 = (E2 / case["em2"]) * case["em2"]
    lhs, rhs = p2 * e1, p1 * e2
    # (the floor only matters while a pulse is in the subnormal range)
    require(abs(lhs - rhs) <= 1e-9 * max(abs(lhs), abs(rhs)) + ABS_FLOOR * max(e1, e2),
            "%s: on-cone amplitude of an electromagnetic shower is not proportional to its "
            "energy: peak(%r GeV) = %.9g, peak(%r GeV) = %.9g, ratio %.12g vs energy ratio %.12g",
            base["model"], e1, p1, e2, p2, p2 / p1 if p1 else float("nan"), e2 / e1)
    cl = _classes(base, v1)
    cl.append("up" if case["factor"] > 1 else "down")
    if math.log10(max(e1, e2)) > 6 > math.log10(min(e1, e2)):
        cl.append("crosses_PeV")
    rec.case(case, nontrivial=_inside(v1) and _inside(v2), classes=cl)


def classify_linear(case, exc):
    base = case.get("base", {})
    if base.get("model") == "ZHS" and base.get("angle", {}).get("sign") == -1 \
            and isinstance(exc, Violation) and "gives no field" in str(exc):
        # theta = -theta_c: the Gaussian of (viewing_angle - theta_c) underflows to zero
        return "ZHS cone factor uses signed viewing_angle"
    return None


# ---------------------------------------------------------------------------

_MODEL_FLOORS = {"ARZ": 0.12, "AVZ": 0.1}

PROPERTY = Property(
    "C07", "Askaryan pulses obey their scaling laws and fail gracefully",
    [
        SubCheck("inverse_distance", distance_cases(), check_inverse_distance,
                 quick=1100, thorough=55000,
                 rule="model x shower energies x ice/depth x dyadic grid x t0 x angle x two distances "
                      "(or the default); non-trivial = peak >=5 samples inside the window and R != R'",
                 floors=dict(_MODEL_FLOORS, **{"ZHS": 0.15, "ARZ:cone": 0.03, "ARZ:off": 0.08,
                                               "default_distance": 0.15, "two_showers": 0.3,
                                               "peak_inside": 0.1, "odd_n": 0.15})),
        SubCheck("angle_sign", sign_cases(), check_angle_sign, quick=1000, thorough=50000,
                 rule="same domain, theta vs -theta; non-trivial = peak inside the window, theta != 0",
                 floors={"ARZ:off": 0.1, "AVZ:off": 0.1, "ARZ:cone": 0.02, "peak_inside": 0.07},
                 classify=classify_sign),
        SubCheck("joint_shift", joint_cases(), check_joint_shift, quick=1100, thorough=55000,
                 rule="same domain, grid and t0 moved together by a multiple of dt/16 (whole samples, "
                      "sub-sample, up to 1e7 samples); non-trivial = peak inside, shift != 0",
                 floors=dict(_MODEL_FLOORS, **{"ZHS": 0.15, "sub_sample": 0.08, "whole_samples": 0.4,
                                               "t0_off_grid": 0.25, "peak_inside": 0.1,
                                               "t0_outside": 0.1})),
        SubCheck("sample_shift", sample_cases(), check_sample_shift, quick=1300, thorough=65000,
                 rule="same domain but t0 and t0 + k dt at most a quarter window outside the grid, "
                      "k != 0 of either sign; non-trivial = peak inside the window before and after",
                 floors=dict(_MODEL_FLOORS, **{"ZHS": 0.15, "forward": 0.25, "backward": 0.15,
                                               "odd_n": 0.15, "peak_inside": 0.12, "t0_outside": 0.05,
                                               "t0_off_grid": 0.25}),
                 classify=classify_sample),
        SubCheck("finite", finite_cases(), check_finite, quick=1200, thorough=60000,
                 rule="same domain plus hadronic energies 0.18-2.9 GeV and arbitrary (non-dyadic) grids "
                      "and shower times; non-trivial = field not identically zero",
                 floors=dict(_MODEL_FLOORS, **{"ZHS": 0.15, "generic_grid": 0.15, "pattern:low_had": 0.05,
                                               "t0_outside": 0.08, "ARZ:pi": 0.004, "ARZ:zero": 0.004,
                                               "nonzero": 0.3}),
                 classify=classify_finite),
        SubCheck("zero_energy", zero_cases(), check_zero_energy, quick=500, thorough=25000,
                 rule="same domain with em_frac = had_frac = 0 and/or particle energy 0, times as array "
                      "or list; every case non-trivial",
                 floors={"ARZ": 0.15, "AVZ": 0.15, "zero:energy": 0.1, "zero:both": 0.07, "odd_n": 0.15},
                 classify=classify_zero),
        SubCheck("cone_peak", cone_cases(), check_cone_peak, quick=600, thorough=30000,
                 rule="model x energies >= 1 TeV x ice/depth x resolving grid (ZHS/AVZ dt 0.06-0.23 ns; ARZ "
                      "1.8-7.3 ps near the cone, 0.06-0.47 ns from where the pulse is >= 2 dt wide), t0 "
                      "mid-window x ladders d1 < d2 < .. (d_next >= 1.5 d + 0.25 deg) above and below the "
                      "cone; non-trivial = at least two amplitude comparisons made",
                 floors={"ARZ": 0.12, "AVZ": 0.15, "ZHS": 0.1, "regime:near": 0.06, "regime:far": 0.05,
                         "rungs_above>=2": 0.4, "rungs_below>=2": 0.4, "negative_angle": 0.05},
                 classify=classify_cone),
        SubCheck("em_linear", linear_cases(), check_em_linear, quick=700, thorough=35000,
                 rule="model x EM-only shower x on the cone x t0 inside the window x energy factor "
                      "1e-6..1e6 through a different (energy, em_frac) split; non-trivial = both peaks inside",
                 floors={"ARZ": 0.15, "AVZ": 0.15, "ZHS": 0.1, "crosses_PeV": 0.05, "down": 0.12,
                         "peak_inside": 0.3},
                 classify=classify_linear),
    ],
    assumptions=[
        "time grids are dyadic (dt = 2^-k s, k = 31..34 for ARZ, 20..36 otherwise; grid start, shower "
        "time and shifts integer multiples of dt/16) so that times - t0 is exact and the shift relations "
        "are asserted at rounding level; arbitrary float grids are exercised by the `finite` sub-check only",
        "ARZ viewing angles closer than 0.1 deg to the cone (but not on it) are not generated, and near the "
        "cone the angle is pushed out until ARZ's oversampled trace has at most 1.5e6 samples (cost diverges "
        "at the cone); shower energies within (0.05, 0.1) GeV and (0.16, 0.18) GeV are not generated (ARZ "
        "step rule has a pole at the EM critical energy 0.0786 GeV)",
        "hadronic shower energies in (0.17, 2.96) GeV are generated by `finite` only (root cause of a known "
        "finding: Gaisser-Hillas profile undefined)",
        "sample_shift: both shower times at most a quarter window outside the grid (further out the models "
        "replace the tail by exact zeros by design); ARZ off-cone tolerance 1e-4 of the pulse peak because "
        "R*A_C is evaluated within +-10 ns only, 1e-12 otherwise",
        "cone_peak is decided on grids that resolve the pulse (see the comment in c07.py); the first rung may "
        "exceed the on-cone amplitude by at most 1 %, every further rung must be strictly lower (1e-9)",
        "tolerances are fractions of the larger peak of the two pulses compared, or of the peak of the same "
        "pulse centred in the window when only a tail is visible",
        "vertex inside the ice (index > 1); |viewing angle| <= pi",
    ],
    design_ref="3/C07",
)
