"""C16 - ice models: index, inverse, gradient, ranges, attenuation (DESIGN 3/C16)."""

import math

import numpy as np
from hypothesis import strategies as st

from ..core import Property, SubCheck, Violation, require
from .. import gens
from ..gens import floats, log_floats

EPS = 2.220446049250313e-16


# ---------------------------------------------------------------------------
# generators


def _depths_for(draw, lo, hi, n, allow_outside=True):
    out = []
    for _ in range(n):
        kind = draw(st.sampled_from(
            ["in", "in", "in", "shallow", "lo", "hi", "lo+", "lo-", "hi+", "hi-",
             "above", "below", "int"] if allow_outside else
            ["in", "in", "in", "shallow", "lo", "hi", "lo+", "hi-", "int"]))
        if kind == "in":
            z = draw(floats(lo, hi))
        elif kind == "shallow":
            z = max(lo, hi - draw(log_floats(1e-6, 100.0)))
        elif kind == "lo":
            z = lo
        elif kind == "hi":
            z = hi
        elif kind == "lo+":
            z = math.nextafter(lo, math.inf)
        elif kind == "lo-":
            z = math.nextafter(lo, -math.inf)
        elif kind == "hi+":
            z = math.nextafter(hi, math.inf)
        elif kind == "hi-":
            z = math.nextafter(hi, -math.inf)
        elif kind == "above":
            z = hi + draw(log_floats(1e-9, 100.0))
        elif kind == "below":
            z = lo - draw(log_floats(1e-9, 1000.0))
        else:
            z = float(draw(st.integers(int(math.ceil(lo)), int(math.floor(hi)))))
        out.append(z)
    return out


@st.composite
def index_cases(draw):
    spec = draw(gens.exp_ice_specs(buried=True))
    lo, hi = spec["range"]
    zs = _depths_for(draw, lo, hi, draw(st.integers(1, 8)))
    scalar_kind = draw(st.sampled_from(["float", "np.float64", "int_if_integral"]))
    return dict(ice=spec, zs=zs, scalar_kind=scalar_kind)


@st.composite
def inverse_cases(draw):
    spec = draw(gens.exp_ice_specs(buried=True))
    lo, hi = spec["range"]
    zs = _depths_for(draw, lo, hi, draw(st.integers(1, 6)), allow_outside=False)
    # raw index values from below n(top) to above n0
    n_top = spec["n0"] - spec["k"] * math.exp(spec["a"] * hi)
    ns = []
    for _ in range(draw(st.integers(1, 6))):
        kind = draw(st.sampled_from(["between", "below_top", "n0", "above_n0",
                                     "n0-ulp", "top", "bottom"]))
        if kind == "between":
            ns.append(draw(floats(n_top, spec["n0"])))
        elif kind == "below_top":
            ns.append(n_top - draw(log_floats(1e-12, 0.5)))
        elif kind == "n0":
            ns.append(spec["n0"])
        elif kind == "above_n0":
            ns.append(spec["n0"] + draw(log_floats(1e-15, 1.0)))
        elif kind == "n0-ulp":
            ns.append(math.nextafter(spec["n0"], 0.0))
        elif kind == "top":
            ns.append(n_top)
        else:
            ns.append(spec["n0"] - spec["k"] * math.exp(spec["a"] * lo))
    return dict(ice=spec, zs=zs, ns=ns)


@st.composite
def gradient_cases(draw):
    spec = draw(st.one_of(gens.exp_ice_specs(), gens.uniform_ice_specs()))
    lo, hi = spec["range"]
    z = max(lo + 0.01, hi - draw(log_floats(0.02, hi - lo)))
    return dict(ice=spec, z=z)


@st.composite
def atten_cases(draw):
    spec = draw(st.one_of(gens.exp_ice_specs(), gens.exp_ice_specs(),
                          gens.uniform_ice_specs()))
    lo, hi = spec["range"]
    if spec["cls"] == "ArasimIce":
        # the AraSim table is linearly extrapolated and turns negative below
        # about 3170 m, deeper than the South Pole ice sheet it tabulates
        lo = max(lo, -2850.0)
    zs = _depths_for(draw, lo, hi, draw(st.integers(1, 5)), allow_outside=False)
    fs = []
    for _ in range(draw(st.integers(1, 6))):
        kind = draw(st.sampled_from(["log", "log", "1e9", "1e9-", "1e9+", "75e6"]))
        if kind == "log":
            fs.append(draw(log_floats(1.0, 1e11)))
        elif kind == "1e9":
            fs.append(1e9)
        elif kind == "1e9-":
            fs.append(math.nextafter(1e9, 0))
        elif kind == "1e9+":
            fs.append(math.nextafter(1e9, 2e9))
        else:
            fs.append(75e6)
    return dict(ice=spec, zs=zs, fs=fs)


@st.composite
def layered_cases(draw):
    n_layers = draw(st.integers(1, 4))
    top = draw(st.sampled_from([0.0, 0.0, -20.0]))
    bounds = [top]
    for _ in range(n_layers):
        bounds.append(bounds[-1] - draw(floats(5.0, 900.0)))
    layers = []
    for i in range(n_layers):
        rng = [bounds[i + 1], bounds[i]]
        if draw(st.booleans()):
            layers.append(dict(cls="UniformIce", n=draw(floats(1.1, 2.0)), range=rng,
                               above=draw(st.sampled_from([1.0, None])), below=None))
        else:
            n0 = draw(floats(1.3, 2.0))
            layers.append(dict(cls=draw(st.sampled_from(["AntarcticIce", "GreenlandIce", "ArasimIce"])),
                               n0=n0, k=draw(floats(0.05, n0 - 1.05)),
                               a=draw(floats(0.003, 0.05)), range=rng,
                               above=draw(st.sampled_from([1.0, None])), below=None))
    order = draw(st.permutations(list(range(n_layers))))
    gap = None
    if n_layers >= 2 and draw(st.integers(0, 4)) == 0:
        # break contiguity: move one internal boundary of one layer only
        gap = draw(st.integers(1, n_layers - 1))
    above = draw(st.sampled_from([1.0, None, 1.25]))
    below = draw(st.sampled_from([None, 1.9, None]))
    zs = []
    for _ in range(draw(st.integers(1, 8))):
        kind = draw(st.sampled_from(["in", "in", "boundary", "b+", "b-", "above", "below"]))
        if kind == "in":
            zs.append(draw(floats(bounds[-1], bounds[0])))
        elif kind == "boundary":
            zs.append(draw(st.sampled_from(bounds[1:-1] if len(bounds) > 2 else bounds)))
        elif kind == "b+":
            zs.append(math.nextafter(draw(st.sampled_from(bounds)), math.inf))
        elif kind == "b-":
            zs.append(math.nextafter(draw(st.sampled_from(bounds)), -math.inf))
        elif kind == "above":
            zs.append(bounds[0] + draw(log_floats(1e-6, 50)))
        else:
            zs.append(bounds[-1] - draw(log_floats(1e-6, 500)))
    return dict(layers=layers, order=list(order), gap=gap, above=above, below=below,
                zs=zs, bounds=bounds)


# ---------------------------------------------------------------------------
# checks


def _as_scalar(z, kind):
    if kind == "np.float64":
        return np.float64(z)
    if kind == "int_if_integral" and float(z).is_integer() and abs(z) < 1e9:
        return int(z)
    return float(z)


def _close(a, b, rel=1e-14, abs_=0.0):
    return abs(a - b) <= abs_ + rel * max(abs(a), abs(b))


def check_index(case, rec):
    spec = case["ice"]
    ice = gens.build_ice(spec)
    lo, hi = spec["range"]
    zs = case["zs"]
    scal = []
    classes = set()
    for z in zs:
        n = ice.index(_as_scalar(z, case["scalar_kind"]))
        ref = gens.ref_index(spec, z)
        require(np.ndim(n) == 0, "scalar depth %r gave non-scalar index %r", z, n)
        require(_close(float(n), ref, rel=4 * EPS),
                "index(%r)=%r but n0-k*exp(a*z) with range masks gives %r (ice %r)",
                z, float(n), ref, spec)
        scal.append(float(n))
        classes.add("outside" if (z < lo or z > hi) else
                    ("bound" if z in (lo, hi) else "inside"))
    arr = ice.index(np.array(zs, dtype=float))
    require(isinstance(arr, np.ndarray) and arr.shape == (len(zs),),
            "array depths gave shape %r", getattr(arr, "shape", None))
    for z, a, s in zip(zs, arr, scal):
        require(_close(float(a), s, rel=4 * EPS),
                "index(array)[z=%r]=%r differs from scalar index %r (ice %r)",
                z, float(a), s, spec)
    # strictly increasing with depth inside the range where resolvable
    inside = sorted(z for z in zs if lo <= z <= hi)
    for z_deep, z_shallow in zip(inside[:-1], inside[1:]):
        if z_deep == z_shallow:
            continue
        n_deep, n_sh = float(ice.index(z_deep)), float(ice.index(z_shallow))
        require(n_deep >= n_sh, "index not monotone: n(%r)=%r < n(%r)=%r",
                z_deep, n_deep, z_shallow, n_sh)
        # strictly, whenever the analytic difference exceeds rounding
        diff = spec["k"] * (math.exp(spec["a"] * z_shallow) - math.exp(spec["a"] * z_deep))
        if diff > 16 * EPS * spec["n0"]:
            require(n_deep > n_sh, "index not strictly increasing with depth: "
                    "n(%r)=%r, n(%r)=%r", z_deep, n_deep, z_shallow, n_sh)
    # declared indices
    n_top = spec["n0"] - spec["k"] * math.exp(spec["a"] * hi)
    n_bot = spec["n0"] - spec["k"] * math.exp(spec["a"] * lo)
    require(_close(float(ice.index_above), n_top if spec["above"] is None else spec["above"], 4 * EPS),
            "index_above %r", ice.index_above)
    require(_close(float(ice.index_below), n_bot if spec["below"] is None else spec["below"], 4 * EPS),
            "index_below %r", ice.index_below)
    for z in zs:
        require(bool(ice.contains((0.0, 0.0, z))) == (lo <= z <= hi),
                "contains((0,0,%r)) wrong for range %r", z, spec["range"])
    rec.case(case, nontrivial=len(classes) >= 2 or not spec.get("default"),
             classes=classes | ({"custom"} if not spec.get("default") else {"shipped"}))


def check_inverse(case, rec):
    spec = case["ice"]
    ice = gens.build_ice(spec)
    lo, hi = spec["range"]
    n0, k, a = spec["n0"], spec["k"], spec["a"]
    classes = set()
    resolvable = 0
    for z in case["zs"]:
        n = float(ice.index(z))
        zr = ice.depth_with_index(n)
        require(np.ndim(zr) == 0 and math.isfinite(float(zr)),
                "depth_with_index(index(%r)=%r) = %r is not a finite scalar (ice %r)",
                z, n, zr, spec)
        zr = float(zr)
        slope = k * a * math.exp(a * z)
        tol = 8 * EPS * n0 / slope + 1e-9
        # (an index between those of the two range edges is inverted, not clamped; the inverse is
        # known to 8 ulp of n0 over the slope only, so it may leave the range by that much where
        # the profile is flat - a buried range whose top is near the asymptote)
        require(lo - tol <= zr <= hi + tol,
                "depth_with_index(%r)=%r outside the valid range %r", n, zr, spec["range"])
        if tol < 1.0:
            resolvable += 1
            classes.add("resolvable")
            require(abs(zr - z) <= tol,
                    "depth_with_index(index(z)) = %r for z = %r (tolerance %.3g m, ice %r)",
                    zr, z, tol, spec)
        else:
            classes.add("asymptote")
            # not distinguishable from the asymptote: only consistency of the index
            back = float(ice.index(min(hi, max(lo, zr))))
            require(abs(back - n) <= 16 * EPS * n0,
                    "index(depth_with_index(n)) = %r != n = %r", back, n)
    n_top = float(ice.index(hi))
    n_bot = float(ice.index(lo))
    scal = []
    for n in case["ns"]:
        zr = ice.depth_with_index(n)
        require(np.ndim(zr) == 0 and math.isfinite(float(zr)),
                "depth_with_index(%r) = %r is not a finite scalar (ice %r)", n, zr, spec)
        zr = float(zr)
        scal.append(zr)
        tol_n = 8 * EPS * n0 / (k * a * math.exp(a * min(hi, max(lo, zr)))) + 1e-9
        require(lo - tol_n <= zr <= hi + tol_n,
                "depth_with_index(%r)=%r outside the valid range %r", n, zr, spec["range"])
        if n < n_top:
            classes.add("clamp_top")
            require(zr == hi, "index %r below n(top)=%r must clamp to %r, got %r", n, n_top, hi, zr)
        elif n > n_bot:
            classes.add("clamp_bottom")
            require(zr == lo, "index %r above n(bottom)=%r must clamp to %r, got %r", n, n_bot, lo, zr)
        else:
            classes.add("between")
            # zr may sit a rounding error (<1e-9 m, allowed above) outside the range
            back = float(ice.index(min(hi, max(lo, zr))))
            require(abs(back - n) <= 16 * EPS * n0,
                    "index(depth_with_index(%r)) = %r", n, back)
    arr = ice.depth_with_index(np.array(case["ns"], dtype=float))
    require(isinstance(arr, np.ndarray) and arr.shape == (len(case["ns"]),),
            "array indices gave shape %r", getattr(arr, "shape", None))
    for n, av, sv in zip(case["ns"], arr, scal):
        require(math.isfinite(float(av)) and _close(float(av), sv, rel=1e-13, abs_=1e-12),
                "depth_with_index(array)[n=%r] = %r but scalar call gives %r (ice %r)",
                n, float(av), sv, spec)
    rec.case(case, nontrivial=resolvable > 0 and len(classes) >= 2, classes=classes)


def check_gradient(case, rec):
    spec = case["ice"]
    ice = gens.build_ice(spec)
    z = case["z"]
    g = ice.gradient(z)
    g = np.asarray(g, dtype=float)
    require(g.shape == (3,), "gradient shape %r", g.shape)
    require(g[0] == 0 and g[1] == 0, "horizontal gradient components %r", g)
    h = 1e-3
    fd = (float(ice.index(z + h)) - float(ice.index(z - h))) / (2 * h)
    n_scale = spec.get("n0", spec.get("n"))
    tol = 1e-6 * abs(fd) + 8 * EPS * n_scale / h
    require(abs(g[2] - fd) <= tol,
            "gradient(%r)[2] = %r but the central difference of index is %r (ice %r)",
            z, g[2], fd, spec)
    rec.case(case, nontrivial=abs(fd) > 100 * tol or spec["cls"] == "UniformIce",
             classes=["uniform" if spec["cls"] == "UniformIce" else "exponential",
                      "resolved" if abs(fd) > 100 * tol else "flat"])


def check_atten(case, rec):
    spec = case["ice"]
    ice = gens.build_ice(spec)
    zs = np.array(case["zs"], dtype=float)
    fs = np.array(case["fs"], dtype=float)
    ref = np.empty((len(zs), len(fs)))
    for i, z in enumerate(zs):
        for j, f in enumerate(fs):
            v = ice.attenuation_length(float(z), float(f))
            require(np.ndim(v) == 0, "scalar z,f gave shape %r", np.shape(v))
            v = float(v)
            require(math.isfinite(v) and v > 0,
                    "attenuation_length(z=%r, f=%r) = %r is not positive and finite (%s)",
                    float(z), float(f), v, spec["cls"])
            ref[i, j] = v
    m = ice.attenuation_length(zs, fs)
    require(np.shape(m) == (len(zs), len(fs)), "matrix shape %r for nz=%d nf=%d",
            np.shape(m), len(zs), len(fs))
    require(np.allclose(m, ref, rtol=1e-12, atol=0),
            "matrix entries differ from scalar evaluation: max rel %r (%s zs=%r fs=%r)",
            float(np.max(np.abs(np.asarray(m) - ref) / ref)), spec["cls"], case["zs"], case["fs"])
    row = ice.attenuation_length(float(zs[0]), fs)
    require(np.shape(row) == (len(fs),), "scalar z, array f gave shape %r", np.shape(row))
    require(np.allclose(row, ref[0], rtol=1e-12, atol=0),
            "row (scalar z) differs from scalar evaluation (%s z=%r fs=%r): %r vs %r",
            spec["cls"], float(zs[0]), case["fs"], np.asarray(row).tolist(), ref[0].tolist())
    col = ice.attenuation_length(zs, float(fs[0]))
    require(np.shape(col) == (len(zs),), "array z, scalar f gave shape %r", np.shape(col))
    require(np.allclose(col, ref[:, 0], rtol=1e-12, atol=0),
            "column (scalar f) differs from scalar evaluation (%s)", spec["cls"])
    cl = [spec["cls"]]
    if any(f >= 1e9 for f in case["fs"]) and any(f < 1e9 for f in case["fs"]):
        cl.append("straddles_1GHz")
    rec.case(case, nontrivial=len(zs) > 1 and len(fs) > 1, classes=cl)


def check_uniform(case, rec):
    spec = case["ice"]
    ice = gens.build_ice(spec)
    lo, hi = spec["range"]
    zs = case["zs"]
    for z in zs:
        n = ice.index(z)
        require(np.ndim(n) == 0 and float(n) == gens.ref_index(spec, z),
                "UniformIce.index(%r) = %r, expected %r (%r)", z, n, gens.ref_index(spec, z), spec)
    arr = ice.index(np.array(zs, dtype=float))
    require(np.shape(arr) == (len(zs),), "shape %r", np.shape(arr))
    for z, v in zip(zs, arr):
        require(float(v) == gens.ref_index(spec, z),
                "UniformIce.index(array)[%r] = %r, expected %r (%r)", z, float(v),
                gens.ref_index(spec, z), spec)
    for z in zs:
        require(bool(ice.contains((1.0, 2.0, z))) == (lo <= z <= hi), "contains %r", z)
    try:
        ice.depth_with_index(spec["n"])
    except NotImplementedError:
        pass
    else:
        raise Violation("UniformIce.depth_with_index must be refused")
    kinds = set("out" if (z < lo or z > hi) else "in" for z in zs)
    rec.case(case, nontrivial=len(kinds) == 2, classes=kinds)


@st.composite
def uniform_cases(draw):
    spec = draw(gens.uniform_ice_specs())
    lo, hi = spec["range"]
    return dict(ice=spec, zs=_depths_for(draw, lo, hi, draw(st.integers(1, 8))))


def check_layered(case, rec):
    from pyrex.custom.layered_ice import LayeredIce
    specs = [dict(s) for s in case["layers"]]
    bounds = list(case["bounds"])
    gap = case["gap"]
    if gap is not None:
        # the layer below boundary `gap` now starts 1 m lower: hole in the stack
        specs[gap]["range"] = [specs[gap]["range"][0], specs[gap]["range"][1] - 1.0]
    objs = [gens.build_ice(s) for s in specs]
    ice = LayeredIce([objs[i] for i in case["order"]], index_above=case["above"],
                     index_below=case["below"])
    if gap is not None:
        try:
            b = ice.boundaries
        except ValueError:
            rec.case(case, nontrivial=True, classes=["gap"])
            return
        raise Violation("non-contiguous stack accepted: boundaries=%r for layers %r"
                        % (b, [s["range"] for s in specs]))
    b = list(ice.boundaries)
    require(b == bounds, "boundaries %r, expected %r", b, bounds)
    require(all(x > y for x, y in zip(b[:-1], b[1:])), "boundaries not sorted: %r", b)
    require([l.valid_range for l in ice.layers] ==
            [tuple(sorted(s["range"])) for s in specs], "layers not sorted top-down")
    top, bottom = bounds[0], bounds[-1]
    scal = []
    classes = set()
    for z in case["zs"]:
        n = ice.index(z)
        require(np.ndim(n) == 0, "scalar depth gave %r", n)
        n = float(n)
        scal.append(n)
        cands = []
        if z > top:
            classes.add("above")
            cands.append(float(objs[0].index(top)) if case["above"] is None else case["above"])
        elif z < bottom:
            classes.add("below")
            cands.append(float(objs[-1].index(bottom)) if case["below"] is None else case["below"])
        else:
            for s, o in zip(specs, objs):
                if s["range"][0] <= z <= s["range"][1]:
                    cands.append(float(o.index(z)))
            classes.add("internal_boundary" if len(cands) == 2 else "inside")
        require(any(n == c for c in cands),
                "LayeredIce.index(%r) = %r, but the containing layer(s) give %r (bounds %r)",
                z, n, cands, bounds)
        require(bool(ice.contains((0, 0, z))) == (bottom <= z <= top), "contains(%r)", z)
        if bottom <= z <= top:
            lay = ice.layer_at_depth(z)
            require(lay.valid_range[0] <= z <= lay.valid_range[1],
                    "layer_at_depth(%r) returned layer with range %r", z, lay.valid_range)
    arr = ice.index(np.array(case["zs"], dtype=float))
    require(np.shape(arr) == (len(case["zs"]),), "array shape %r", np.shape(arr))
    require([float(v) for v in arr] == scal, "array index %r != scalar index %r",
            [float(v) for v in arr], scal)
    rec.case(case, nontrivial=len(specs) >= 2 and len(classes) >= 2,
             classes=classes | {"layers=%d" % len(specs)})


PROPERTY = Property(
    "C16", "Ice models self-consistent: index, inverse, gradient, ranges and attenuation",
    [
        SubCheck("index", index_cases(), check_index, quick=4000, thorough=200000,
                 rule="ice spec (shipped or arbitrary n0,k,a,range,boundary indices) x 1-8 depths "
                      "(inside/bounds/+-1ulp/outside/int); non-trivial = custom ice or depths of >=2 "
                      "position classes",
                 floors={"outside": 0.3, "bound": 0.2, "custom": 0.4}),
        SubCheck("inverse", inverse_cases(), check_inverse, quick=4000, thorough=200000,
                 rule="ice spec x depths in range x raw index values (below n(top) .. above n0); "
                      "non-trivial = at least one depth resolvable (tolerance < 1 m) and >=2 classes",
                 floors={"clamp_bottom": 0.15, "clamp_top": 0.12, "resolvable": 0.5},
                 classify=lambda case, e: "depth_with_index=-inf at n==index(bottom)"
                 if "-inf" in str(e) else None),
        SubCheck("gradient", gradient_cases(), check_gradient, quick=2400, thorough=120000,
                 rule="ice spec x depth; gradient vs central difference (h=1 mm); non-trivial = "
                      "slope resolved above rounding or uniform ice",
                 floors={"resolved": 0.15}),
        SubCheck("attenuation", atten_cases(), check_atten, quick=3000, thorough=150000,
                 rule="ice spec x 1-5 depths x 1-6 frequencies (incl. 1 GHz +-1ulp); all four "
                      "scalar/array shape combinations vs scalar evaluation; non-trivial = true matrix",
                 floors={"straddles_1GHz": 0.15}),
        SubCheck("uniform", uniform_cases(), check_uniform, quick=1500, thorough=60000,
                 rule="UniformIce spec x depths; non-trivial = depths inside and outside"),
        SubCheck("layered", layered_cases(), check_layered, quick=2400, thorough=120000,
                 rule="1-4 contiguous layers (uniform/exponential) in any order, optional gap; depths "
                      "inside, on and 1 ulp around boundaries, outside; non-trivial = >=2 layers and >=2 "
                      "depth classes, or a gap stack",
                 floors={"internal_boundary": 0.08, "gap": 0.03}),
    ],
    assumptions=[
        "depths and frequencies are passed as Python/numpy scalars or 1-d ndarrays (lists are not exercised)",
        "ArasimIce attenuation is checked down to 2850 m only (its table is extrapolated linearly and "
        "turns negative below ~3170 m, deeper than the ice sheet it describes)",
        "'numerically distinguishable from the asymptote' is taken as 8 ulp(n0)/|dn/dz| < 1 m",
    ],
    design_ref="3/C16",
)
