"""C12 - every way of reading or continuing a file yields the same event stream
(DESIGN 3/C12).

Files come from the C11 generator (accepted add() calls only: variable numbers
of particle / ray / waveform / trigger rows per event, events without rows in
some tables).  The reference is one sequential pass over the file with the
default reader; every other access path must return, event for event, the same
summary (`c11.observe`: everything the event accessors return).  For a file
with n events the index / slice / chunk-size spaces are enumerated completely.
"""

import os

import numpy as np
from hypothesis import strategies as st

from ..core import Property, SubCheck, Violation, require
from ..gens import seeds32
from . import c11
from .c11 import history_cases, observe, scratch, write_history

EPS = 2.220446049250313e-16
LEAN = dict(write_triggers=False, write_antenna_triggers=False, write_rays=False,
            write_noise=False, write_waveforms=False, require_trigger=False)

# ---------------------------------------------------------------------------
# generators


@st.composite
def access_cases(draw, max_ops=8):
    hist = draw(history_cases(min_ops=1, max_ops=max_ops, slice_ranges=(None,)))
    return dict(file=hist, reader_slice_range=draw(st.sampled_from([None, None, 1, 2, 3, 5])))


@st.composite
def append_cases(draw):
    hist = draw(history_cases(min_ops=2, max_ops=7, slice_ranges=(None,)))
    n = len(hist["ops"])
    nsess = draw(st.integers(2, 4))
    cuts = sorted(draw(st.integers(0 if draw(st.integers(0, 5)) == 0 else 1, n - 1))
                  for _ in range(nsess - 1))
    modes = [draw(st.sampled_from(["a", "r+"])) for _ in range(nsess - 1)]
    return dict(file=hist, cuts=cuts, modes=modes)


@st.composite
def generator_cases(draw):
    nfiles = draw(st.sampled_from([1, 1, 2, 2, 3]))
    plain = draw(st.sampled_from([False, False, True]))
    files = []
    for _ in range(nfiles):
        lean = draw(st.integers(0, 3)) > 0
        files.append(draw(history_cases(min_ops=1, max_ops=5, slice_ranges=(None,),
                                        config=LEAN if lean else None, plain_particles=plain)))
    nmax = max(len(f["ops"]) for f in files)
    return dict(files=files, slice_range=draw(st.integers(1, nmax + 2)),
                as_str=nfiles == 1 and draw(st.booleans()),
                model=draw(st.sampled_from(["default", "default", "base"])), seed=draw(seeds32))


# ---------------------------------------------------------------------------
# helpers


def reference(path, nant):
    """One sequential pass with the default reader."""
    from pyrex.io import File
    with File(path, "r") as f:
        n = len(f)
        ref = [observe(ev, nant) for ev in f]
        thrown = int(f.total_events_thrown)
    require(len(ref) == n, "[reference] sequential pass yields %d events, len(file) = %d",
            len(ref), n)
    return ref, thrown


def first_diff(a, b):
    for key in c11.ALL_PARTS:
        if a[key] != b[key]:
            return "%s: %r  vs reference  %r" % (key, a[key], b[key])
    return None


def same_stream(tag, what, got, want_idx, ref):
    """`got` (list of summaries) must be the reference events `want_idx`."""
    require(len(got) == len(want_idx), "[%s] %s yields %d events, expected events %r of the "
            "sequential pass", tag, what, len(got), want_idx)
    for pos, (g, i) in enumerate(zip(got, want_idx)):
        d = first_diff(g, ref[i])
        if d is not None:
            twin = [j for j in range(len(ref)) if first_diff(g, ref[j]) is None]
            raise Violation("[%s] %s: item %d is not event %d of the sequential pass%s -- %s"
                            % (tag, what, pos, i,
                               " (it is event %r)" % twin if twin else "", d[:600]))


def file_classes(case_file, records, ref):
    cl = c11.case_classes(case_file, records, [])
    sig = set(c11.row_signature(case_file["config"], r) for r in records)
    if len(sig) >= 2:
        cl.add("nonuniform_rows")
    if len(set(repr(x) for x in ref)) == len(ref):
        cl.add("all_events_distinct")
    cl.add("n=%d" % len(ref) if len(ref) <= 3 else "n>=4")
    return cl


def _spell(a, b, c):
    return "%s:%s%s" % ("" if a is None else a, "" if b is None else b,
                        "" if c is None else ":%d" % c)


def read_slice(f, a, b, c, nant, tag):
    what = "file[%s]" % _spell(a, b, c)
    try:
        return what, [observe(ev, nant) for ev in f[a:b:c]]
    except (ValueError, IndexError) as e:
        raise Violation("[%s] %s raised %s: %s" % (tag, what, type(e).__name__, e))


# ---------------------------------------------------------------------------
# checks


def check_chunked(case, rec):
    from pyrex.io import File
    nant = len(case["file"]["detector"])
    with scratch() as path:
        records, _ = write_history(case["file"], path)
        ref, _ = reference(path, nant)
        n = len(ref)
        require(n == len(records), "[reference] %d events read, %d accepted", n, len(records))
        for k in range(1, n + 3):
            with File(path, "r", slice_range=k) as f:
                got = [observe(ev, nant) for ev in f]
                # a second pass over the same reader object starts again at the first event
                again = [observe(ev, nant) for ev in f] if k == 1 + n % 2 else None
            same_stream("chunked", "iteration with slice_range=%d" % k, got, list(range(n)), ref)
            if again is not None:
                same_stream("chunked", "second iteration with slice_range=%d" % k, again,
                            list(range(n)), ref)
    cl = file_classes(case["file"], records, ref)
    rec.case(case, nontrivial="nonuniform_rows" in cl and n >= 2, classes=cl)


def check_index(case, rec):
    from pyrex.io import File
    nant = len(case["file"]["detector"])
    sr = case["reader_slice_range"]
    kw = {} if sr is None else dict(slice_range=sr)
    with scratch() as path:
        records, _ = write_history(case["file"], path)
        ref, _ = reference(path, nant)
        n = len(ref)
        with File(path, "r", **kw) as f:
            for i in list(range(n)) + list(range(-n, 0)):
                try:
                    got = observe(f[i], nant)
                except (IndexError, ValueError) as e:
                    raise Violation("[index] file[%d] raised %s: %s (n=%d)"
                                    % (i, type(e).__name__, e, n))
                same_stream("index", "file[%d]" % i, [got], [i % n], ref)
            for i in (n, n + 1, -n - 1, -n - 2):
                try:
                    ev = f[i]
                except IndexError:
                    continue
                raise Violation("[index] file[%d] of a file with %d events returned an event "
                                "instead of raising IndexError" % (i, n))
    cl = file_classes(case["file"], records, ref)
    if sr is not None:
        cl.add("reader_slice_range")
    rec.case(case, nontrivial="nonuniform_rows" in cl and n >= 2, classes=cl)


def make_slices(kind):
    def check(case, rec):
        from pyrex.io import File
        nant = len(case["file"]["detector"])
        sr = case["reader_slice_range"]
        kw = {} if sr is None else dict(slice_range=sr)
        count = 0
        multi = 0
        with scratch() as path:
            records, _ = write_history(case["file"], path)
            ref, _ = reference(path, nant)
            n = len(ref)
            idx = list(range(n))
            with File(path, "r", **kw) as f:
                for a in range(n):
                    for b in range(a + 1, n + 1):
                        if kind == "unit":
                            spellings = [(a, b, None), (a, b, 1)]
                            if a == 0:
                                spellings += [(None, b, None), (None, b, 1)]
                            if b == n:
                                spellings += [(a, None, None), (a, None, 1)]
                            if a == 0 and b == n:
                                spellings += [(None, None, None)]
                        elif kind == "negative":
                            spellings = [(a - n, b, None), (a - n, None if b == n else b - n, 1)]
                            if b < n:
                                spellings += [(a, b - n, None), (None if a == 0 else a, b - n, 1)]
                        else:
                            spellings = [(a, b, c) for c in range(2, n + 2)]
                            if b == n:
                                spellings += [(a, None, c) for c in range(2, n + 2)]
                        for (x, y, z) in spellings:
                            want = idx[x:y:z]
                            what, got = read_slice(f, x, y, z, nant, "slice-" + kind)
                            same_stream("slice-" + kind, what, got, want, ref)
                            count += 1
                            multi += len(want) >= 2
        cl = file_classes(case["file"], records, ref)
        if sr is not None:
            cl.add("reader_slice_range")
        if multi:
            cl.add("multi_event_slices")
        rec.case(case, nontrivial="nonuniform_rows" in cl and multi > 0, classes=cl)
    return check


def check_append(case, rec):
    from pyrex.io import File
    hist = case["file"]
    nant = len(hist["detector"])
    n = len(hist["ops"])
    ends = list(case["cuts"]) + [n]
    with scratch() as path:
        multi_path = os.path.join(os.path.dirname(path), "appended.h5")
        rec_a, _ = write_history(hist, path)
        rec_b, _ = write_history(hist, multi_path, sessions=ends, modes=case["modes"])
        ref, thrown = reference(path, nant)
        with File(multi_path, "r") as f:
            nb = len(f)
            got = [observe(ev, nant) for ev in f]
            thrown_b = int(f.total_events_thrown)
    require(nb == len(ref) == n, "[append] %d events after sessions ending at ops %r, single "
            "session holds %d (%d add calls)", nb, ends, len(ref), n)
    same_stream("append", "file written in sessions ending at ops %r (modes %r)"
                % (ends, case["modes"]), got, list(range(n)), ref)
    require(thrown_b == thrown, "[append] total_events_thrown = %d after sessions %r, single "
            "session %d", thrown_b, ends, thrown)
    cl = file_classes(hist, rec_a, ref)
    cl.add("sessions=%d" % len(ends))
    if any(e == s for s, e in zip([0] + ends[:-1], ends)):
        cl.add("empty_session")
    if "r+" in case["modes"]:
        cl.add("mode_r+")
    if "a" in case["modes"]:
        cl.add("mode_a")
    rec.case(case, nontrivial="nonuniform_rows" in cl, classes=cl)


def _forced(p):
    return p["weight"] != p["survival_weight"] * p["interaction_weight"]


def make_generator(forced_weights):
    def check(case, rec):
        from pyrex.generation import FileGenerator
        from pyrex.particle import Interaction
        with scratch() as path:
            d = os.path.dirname(path)
            paths, events, thrown = [], [], []
            for k, hist in enumerate(case["files"]):
                p = os.path.join(d, "gen%d.h5" % k)
                records, _ = write_history(hist, p)
                paths.append(p)
                events.append([r["particles"] for r in records])
                thrown.append(sum(r["thrown"] for r in records))
            flat = [p for evs in events for ev in evs for p in ev]
            plain = all("neutrino" in p["particle_name"] and p["interaction_kind"] in (1.0, 2.0)
                        for p in flat)
            kw = {}
            if not (plain and case["model"] == "default"):
                kw["interaction_model"] = Interaction
            np.random.seed(case["seed"])
            gen = FileGenerator(paths[0] if case["as_str"] else paths,
                                slice_range=case["slice_range"], **kw)
            last = gen.count
            require(last == 0, "[generator] count = %r before any event was produced", last)
            nforced = 0
            for fi, evs in enumerate(events):
                for ei, want in enumerate(evs):
                    where = "file %d event %d (slice_range=%d)" % (fi, ei, case["slice_range"])
                    try:
                        ev = gen.create_event()
                    except StopIteration:
                        raise Violation("[generator] StopIteration at %s; files hold %r events"
                                        % (where, [len(e) for e in events]))
                    got = list(ev)
                    require(len(got) == len(want), "[generator] %s: %d particles replayed, %d "
                            "stored", where, len(got), len(want))
                    for pi, (g, w) in enumerate(zip(got, want)):
                        _cmp_particle("%s particle %d" % (where, pi), g, w, forced_weights)
                        nforced += _forced(w)
                    require(gen.count >= last, "[generator] count decreased from %d to %d at %s",
                            last, gen.count, where)
                    last = gen.count
            require(gen.count == sum(thrown), "[generator] count = %d after the last event, the "
                    "files' total_events_thrown are %r", gen.count, thrown)
            try:
                extra = gen.create_event()
            except StopIteration:
                extra = None
            require(extra is None, "[generator] create_event() returned another event after the "
                    "%d stored ones", sum(len(e) for e in events))
        cl = set()
        cl.add("files=%d" % len(paths))
        if case["slice_range"] < max(len(e) for e in events):
            cl.add("several_chunks_per_file")
        if len(set(len(ev) for evs in events for ev in evs)) >= 2:
            cl.add("nonuniform_rows")
        if "interaction_model" not in kw:
            cl.add("default_model")
        if nforced:
            cl.add("forced_weight")
        if any(s["parent"] >= 0 for h in case["files"] for op in h["ops"] for s in op["particles"]):
            cl.add("particle_tree")
        rec.case(case, nontrivial=len(flat) >= 3 and ("several_chunks_per_file" in cl
                                                       or len(paths) >= 2), classes=cl)
    return check


def _cmp_particle(where, g, w, forced_weights):
    require(g.id.value == int(w["particle_id"]) and g.id.name == w["particle_name"],
            "[generator] %s: type %r, stored %s", where, g.id, w["particle_name"])
    require([float(x) for x in g.vertex] == [w["vertex_x"], w["vertex_y"], w["vertex_z"]],
            "[generator] %s: vertex %r, stored %r", where, list(g.vertex),
            [w["vertex_x"], w["vertex_y"], w["vertex_z"]])
    # the stored unit vector is normalised once more: 4 ulp of slack per component
    wd = [w["direction_x"], w["direction_y"], w["direction_z"]]
    require(all(abs(float(a) - b) <= 4 * EPS for a, b in zip(g.direction, wd)),
            "[generator] %s: direction %r, stored %r", where, list(g.direction), wd)
    require(float(g.energy) == w["energy"], "[generator] %s: energy %r, stored %r", where,
            g.energy, w["energy"])
    it = g.interaction
    require(float(it.kind.value) == w["interaction_kind"] and it.kind.name == w["interaction_name"],
            "[generator] %s: interaction kind %r, stored %s", where, it.kind, w["interaction_name"])
    for attr, key in (("inelasticity", "interaction_inelasticity"), ("em_frac", "interaction_em_frac"),
                      ("had_frac", "interaction_had_frac")):
        require(float(getattr(it, attr)) == w[key], "[generator] %s: %s = %r, stored %r", where,
                attr, getattr(it, attr), w[key])
    for attr in ("survival_weight", "interaction_weight"):
        require(getattr(g, attr) is not None and float(getattr(g, attr)) == w[attr],
                "[generator] %s: %s = %r, stored %r", where, attr, getattr(g, attr), w[attr])
    if forced_weights or not _forced(w):
        require(float(g.weight) == w["weight"], "[generator] %s: weight = %r, stored total weight "
                "%r%s", where, g.weight, w["weight"],
                " [stored weight was set independently of its factors]" if _forced(w) else "")


# ---------------------------------------------------------------------------
# classifiers of the known defects


def classify_step(case, exc):
    m = str(exc)
    if m.startswith("[slice-step]") and "is not event" in m:
        return "slice_step_returns_rows_of_skipped_events"
    return None


def classify_negative(case, exc):
    m = str(exc)
    if m.startswith("[slice-negative]") and "zero-size array" in m:
        return "slice_negative_stop_zero_size_array"
    return None


def classify_forced(case, exc):
    if "[stored weight was set independently of its factors]" in str(exc):
        return "forced_total_weight_not_replayed"
    return None


# ---------------------------------------------------------------------------

_FILE = ("file from the C11 generator (any writer configuration, 1-4 antennas, 1-%d events with "
         "1-4 particles, 0-3 rays/waveforms per antenna, triggered or not)")

PROPERTY = Property(
    "C12", "Every way of reading or continuing a file yields the same event stream",
    [
        SubCheck("chunked_iteration", access_cases(), check_chunked, quick=120, thorough=6000,
                 quick_shards=4,
                 rule=_FILE % 8 + " x every slice_range 1..n+2 (all enumerated) and a repeated "
                 "pass; non-trivial = events with different row counts and n>=2",
                 floors={"nonuniform_rows": 0.35, "n>=4": 0.2}),
        SubCheck("integer_index", access_cases(), check_index, quick=150, thorough=7500,
                 quick_shards=5,
                 rule=_FILE % 8 + " x reader slice_range x every index -n..n-1 (all enumerated) "
                 "and the four nearest out-of-range indices (IndexError)",
                 floors={"nonuniform_rows": 0.35, "n>=4": 0.2, "reader_slice_range": 0.3}),
        SubCheck("slices_unit_step", access_cases(max_ops=6), make_slices("unit"),
                 quick=100, thorough=5000, quick_shards=6,
                 rule=_FILE % 6 + " x reader slice_range x every slice 0<=a<b<=n with step "
                 "None/1 and None ends (all enumerated)",
                 floors={"nonuniform_rows": 0.3, "multi_event_slices": 0.35}),
        SubCheck("slices_negative", access_cases(max_ops=6), make_slices("negative"),
                 quick=120, thorough=6000, quick_shards=5,
                 rule=_FILE % 6 + " x reader slice_range x every slice 0<=a<b<=n with start "
                 "and/or stop spelled negative (all enumerated)",
                 classify=classify_negative, shrink_cap=(60, 300)),
        SubCheck("slices_step", access_cases(max_ops=6), make_slices("step"),
                 quick=120, thorough=6000, quick_shards=6,
                 rule=_FILE % 6 + " x reader slice_range x every slice 0<=a<b<=n with step "
                 "2..n+1 (all enumerated)",
                 classify=classify_step, shrink_cap=(60, 300)),
        SubCheck("append_sessions", append_cases(), check_append, quick=100, thorough=5000,
                 quick_shards=4,
                 rule="C11 history of 2-7 add() calls written once in a single session and once "
                 "split into 2-4 sessions (modes 'a' / 'r+', detector linked again, empty "
                 "sessions allowed): same events and same total_events_thrown",
                 floors={"nonuniform_rows": 0.35, "mode_r+": 0.25, "mode_a": 0.3,
                         "empty_session": 0.15}),
        SubCheck("file_generator", generator_cases(), make_generator(False),
                 quick=160, thorough=8000,
                 rule="1-3 files (1-5 events each) x slice_range 1..n+2 x interaction model: "
                 "create_event() replays every stored particle in order (type, vertex, "
                 "direction to 4 ulp, energy, interaction, weights), count non-decreasing and "
                 "ending at the sum of total_events_thrown, then StopIteration; non-trivial = "
                 ">=3 particles and several chunks or files",
                 floors={"files=2": 0.15, "several_chunks_per_file": 0.25, "default_model": 0.05}),
        SubCheck("generator_forced_weight", generator_cases(), make_generator(True),
                 quick=80, thorough=4000,
                 rule="as file_generator, additionally the total weight of particles whose stored "
                 "weight is not the product of its two factors",
                 classify=classify_forced, shrink_cap=(60, 300)),
    ],
    assumptions=[
        "files are written without rejected add() calls (their effect is C11's business)",
        "slices are in range with start < stop (empty and out-of-range slices are outside the "
        "statement)",
        "FileGenerator gets the base Interaction model when a file holds non-neutrino particles "
        "or undefined interaction kinds (the neutrino models refuse or re-draw those)",
        "the apportioning of total_events_thrown over the events is not asserted, only that "
        "count never decreases and ends at the files' sum",
        "direction is compared to 4 ulp (the generator normalises the stored unit vector again); "
        "everything else exactly",
    ],
    design_ref="3/C12",
)
