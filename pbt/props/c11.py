"""C11 - HDF5 write-read round trip for every configuration (DESIGN 3/C11).

A *case* is one writer configuration + detector + a history of ``add`` calls
(some of them malformed, i.e. calls that must be rejected).  The harness keeps
its own *model*: for every accepted call the exact data that were handed to
``add`` (particle attributes, ray metadata, the trigger argument, and -- read
off the detector objects right before the call -- waveforms, antenna trigger
decisions and noise bases).  What must be readable for event i is derived
from that model and the *documented* meaning of the writer options only
(``write_*`` = record that kind of data, ``require_trigger`` = which kinds are
recorded only for triggered events).  Nothing of the writer's row bookkeeping
is modelled: the file is read back through the public reader.

Everything that builds / writes / observes a file is reused by C12.
"""

import os
import shutil
import tempfile

import numpy as np
from hypothesis import strategies as st

from ..core import Property, SubCheck, Violation, require
from ..gens import floats, log_floats, seeds32, unit_vectors

# ---------------------------------------------------------------------------
# vocabulary (documented enum values, PDG numbering as in Particle.Type)

PDG_NAME = {
    0: "undefined", 11: "electron", -11: "positron",
    12: "electron_neutrino", -12: "electron_antineutrino",
    13: "muon", -13: "antimuon", 14: "muon_neutrino", -14: "muon_antineutrino",
    15: "tau", -15: "antitau", 16: "tau_neutrino", -16: "tau_antineutrino",
}
NEUTRINO_IDS = [12, -12, 14, -14, 16, -16]
OTHER_IDS = [11, -11, 13, -13, 15, -15, 0]
KIND_VALUE = {"undefined": 0, "charged_current": 1, "neutral_current": 2}

TABLES = ["particles", "triggers", "antenna_triggers", "waveforms", "rays", "noise"]
EXTRA_KEYS = ["x", "lpda", "station_1", "y"]
RAY_KEYS = ["n0", "dz", "emitted_x", "emitted_y", "emitted_z", "received_x",
            "received_y", "received_z", "launch_angle", "receiving_angle",
            "path_length", "tof"]
MAX_WAVES = 3          # rays / waveforms per antenna are drawn from 0..MAX_WAVES
PROBE_RAYS = MAX_WAVES + 2   # ray numbers asked of get_triggered_components

FAULTS = ["no_rays", "no_pols", "trig_none", "no_global", "rays_len", "pols_len",
          "pol_inner", "short_list"]

# ---------------------------------------------------------------------------
# generators (plain JSON)


@st.composite
def configs(draw, focus=None):
    wt = draw(st.sampled_from([True, True, True, False]))
    wat = wt and draw(st.sampled_from([True, True, False]))
    cfg = dict(write_triggers=wt, write_antenna_triggers=wat,
               write_rays=draw(st.sampled_from([True, True, False])),
               write_noise=draw(st.booleans()),
               write_waveforms=draw(st.sampled_from([True, True, False])))
    if focus == "triggers":
        cfg["write_triggers"] = True
        cfg["write_antenna_triggers"] = draw(st.sampled_from([True, True, True, False]))
    elif focus == "rays":
        cfg["write_rays"] = True
    elif focus == "noise_waveforms":
        which = draw(st.sampled_from(["noise", "waveforms", "both", "both"]))
        cfg["write_noise"] = which in ("noise", "both")
        cfg["write_waveforms"] = which in ("waveforms", "both")
    kind = draw(st.sampled_from(["true", "false", "list", "list", "list", "str"]))
    names = [t for t in TABLES if t != "particles"]
    if kind == "true":
        rt = True
    elif kind == "false":
        rt = False
    elif kind == "str":
        rt = draw(st.sampled_from(names))
    else:
        # any subset (also the empty one and names of kinds that are not written)
        rt = [t for t in names if draw(st.integers(0, 9)) < 4]
        if focus == "triggers" and draw(st.booleans()) and "antenna_triggers" not in rt:
            rt.append("antenna_triggers")
        rt = list(draw(st.permutations(rt)))
    cfg["require_trigger"] = rt
    return cfg


@st.composite
def detectors(draw):
    n = draw(st.sampled_from([1, 2, 2, 3, 3, 4]))
    return [dict(kind=draw(st.sampled_from(["antenna", "antenna", "system"])),
                 noisy=draw(st.sampled_from([False, False, True])),
                 thr=draw(st.sampled_from([0.2, 0.6, 1.5])))
            for _ in range(n)]


@st.composite
def particle_specs(draw, k, plain=False):
    """`plain`: neutrinos with the default interaction model only."""
    neutrino = plain or (k == 0 and draw(st.integers(0, 4)) > 0) or (k > 0 and draw(st.booleans()))
    if neutrino:
        pid = draw(st.sampled_from(NEUTRINO_IDS))
        model = "default" if plain else draw(st.sampled_from(["default", "default", "base"]))
    else:
        pid = draw(st.sampled_from(OTHER_IDS))
        model = "base"
    if model == "default":
        kind = draw(st.sampled_from(["charged_current", "neutral_current"]))
    else:
        kind = draw(st.sampled_from(sorted(KIND_VALUE)))
    weights = draw(st.sampled_from(["none", "set", "set", "forced"]))
    return dict(
        pid=pid, how=draw(st.sampled_from(["int", "name", "enum"])), model=model,
        vertex=[draw(floats(-1e4, 1e4)), draw(floats(-1e4, 1e4)), draw(floats(-3000, 0))],
        direction=[c * s for c, s in zip(draw(unit_vectors()),
                                         [draw(st.sampled_from([1.0, 1.0, 2.5]))] * 3)],
        energy=draw(log_floats(1e6, 1e11)), kind=kind,
        y=draw(floats(0, 1)), em=draw(floats(0, 1)), had=draw(floats(0, 1)),
        sw=None if weights == "none" else draw(floats(1e-6, 1)),
        iw=None if weights == "none" else draw(floats(1e-6, 1)),
        forced=draw(floats(1e-6, 1)) if weights == "forced" else None,
        parent=-1 if k == 0 else draw(st.integers(-1, k - 1)))


@st.composite
def trigger_specs(draw, silent, dict_bias=False):
    """`silent`: the event has no waveform at all -> every extra value is False
    (event-level triggers of waveform-less events are the business of the
    `components_nowave` sub-check only)."""
    glob = draw(st.booleans())
    if draw(st.integers(0, 3 if not dict_bias else 9)) == 0:
        return dict(form="bool", **{"global": glob})
    extras = []
    for key in draw(st.lists(st.sampled_from(EXTRA_KEYS), max_size=3, unique=True)):
        if draw(st.booleans()):
            val = (not silent) and draw(st.booleans())
        else:
            n = draw(st.integers(MAX_WAVES, MAX_WAVES + 2))
            val = [(not silent) and draw(st.booleans()) for _ in range(n)]
        extras.append(dict(key=key, val=val))
    return dict(form="dict", extras=extras, **{"global": glob})


@st.composite
def add_ops(draw, ndet, fault=None, dict_bias=False, nowave=None, plain=False):
    npart = draw(st.sampled_from([1, 1, 1, 2, 2, 3, 4]))
    shape = draw(st.sampled_from(["varied", "varied", "varied", "none", "one"]))
    if nowave is True:
        shape = "none"
    if shape == "none":
        nsig = [0] * ndet
    elif shape == "one":
        nsig = [1] * ndet
    else:
        nsig = [draw(st.integers(0, MAX_WAVES)) for _ in range(ndet)]
    if nowave is False and max(nsig) == 0:
        nsig[draw(st.integers(0, ndet - 1))] = draw(st.integers(1, MAX_WAVES))
    # rays normally come with the waveforms; sometimes their numbers differ
    nray = None
    if draw(st.integers(0, 3)) == 0:
        nray = [draw(st.integers(0, MAX_WAVES)) for _ in range(ndet)]
    return dict(op="add",
                particles=[draw(particle_specs(k, plain)) for k in range(npart)],
                nsig=nsig, nray=nray, amp=draw(st.sampled_from([0.25, 0.5, 1.0, 2.0])),
                rv=draw(floats(-1e3, 1e3)),
                trig=draw(trigger_specs(max(nsig) == 0, dict_bias)),
                thrown=draw(st.integers(1, 5)), reset_noise=draw(st.booleans()),
                fault=fault)


def effective_faults(cfg):
    """Malformed arguments that the options `cfg` make the writer use, provided the
    event is triggered and has a waveform (generator helper only)."""
    w, to = write_flags(cfg), trigger_only(cfg)
    out = []
    if w["rays"]:
        out += ["no_rays", "no_pols", "rays_len", "pols_len", "pol_inner"]
    if any(to.values()) or w["triggers"]:
        out.append("trig_none")
    if w["triggers"] or any(w[t] and to[t] for t in TABLES):
        out.append("no_global")
    if w["triggers"]:
        out += ["short_list", "short_list"]
    return out


@st.composite
def history_cases(draw, focus=None, faults=False, min_ops=1, max_ops=6,
                  slice_ranges=(None, None, None, 1, 2, 3), nowave_probe=False, config=None,
                  plain_particles=False):
    cfg = dict(config) if config is not None else draw(
        configs(focus="triggers" if nowave_probe else focus))
    det = draw(detectors())
    n = draw(st.integers(min_ops, max_ops))
    flags = [None] * n
    forced = set()
    if faults:
        layout = draw(st.sampled_from(["between", "between", "last", "first", "any", "any"]))
        n = max(n, 3 if layout == "between" else 2)
        eff = effective_faults(cfg)

        def one_fault(k):
            if eff and draw(st.integers(0, 2)) > 0:
                forced.add(k)
                return draw(st.sampled_from(eff))
            return draw(st.sampled_from(FAULTS))
        flags = [None] * n
        if layout == "between":
            k = draw(st.integers(1, n - 2))
            flags[k] = one_fault(k)
        elif layout == "last":
            flags[n - 1] = one_fault(n - 1)
        elif layout == "first":
            flags[0] = one_fault(0)
        for k in range(n):
            if flags[k] is None and draw(st.integers(0, 4 if layout != "any" else 1)) == 0:
                flags[k] = one_fault(k)
        if all(f is not None for f in flags):
            flags[draw(st.integers(0, n - 1))] = None
        if all(f is None for f in flags):
            k = draw(st.integers(0, n - 1))
            flags[k] = one_fault(k)
    ops = []
    for k, f in enumerate(flags):
        nowave = None
        if nowave_probe:
            nowave = draw(st.sampled_from([True, False, False]))
        if k in forced:
            nowave = False
        op = draw(add_ops(len(det), fault=f, dict_bias=focus == "triggers" or nowave_probe,
                          nowave=nowave, plain=plain_particles))
        if k in forced:
            op["trig"]["global"] = True     # so that trigger-only kinds are recorded
        ops.append(op)
    if nowave_probe:
        # one waveform-less event carries a true event-level component trigger
        k = draw(st.integers(0, n - 1))
        ops[k]["nsig"] = [0] * len(det)
        ops[k]["trig"] = {"form": "dict", "global": draw(st.booleans()),
                          "extras": [dict(key=draw(st.sampled_from(EXTRA_KEYS)), val=True)]}
    return dict(config=cfg, detector=det, seed=draw(seeds32), ops=ops,
                slice_range=draw(st.sampled_from(list(slice_ranges))))


# ---------------------------------------------------------------------------
# documented meaning of the options


def write_flags(cfg):
    return dict(particles=True, triggers=cfg["write_triggers"],
                antenna_triggers=cfg["write_antenna_triggers"],
                waveforms=cfg["write_waveforms"], rays=cfg["write_rays"],
                noise=cfg["write_noise"])


def trigger_only(cfg):
    """Which kinds of data are recorded for triggered events only."""
    rt = cfg["require_trigger"]
    if rt is True:
        # "most data will be written only on a detector trigger (particle
        # metadata and trigger data will still be written for every event)"
        return {t: t not in ("particles", "triggers", "antenna_triggers") for t in TABLES}
    if rt is False:
        return {t: False for t in TABLES}
    names = [rt] if isinstance(rt, str) else list(rt)
    return {t: t in names for t in TABLES}


def recorded(cfg, kind, T):
    w, to = write_flags(cfg), trigger_only(cfg)
    ok = w[kind] and (not to[kind] or bool(T))
    if kind == "antenna_triggers":
        # antenna triggers are a part of the trigger record
        ok = ok and recorded(cfg, "triggers", T)
    return ok


def must_reject(cfg, fault, T, max_waves):
    """(must the call raise?, acceptable exception types) for a malformed call."""
    w, to = write_flags(cfg), trigger_only(cfg)
    if fault is None:
        return False, ()
    if fault in ("no_rays", "no_pols"):
        # "Ray path and polarization information must be provided if writing ray data"
        return w["rays"], (ValueError,)
    if fault == "trig_none":
        if any(to.values()):
            # "Trigger information must be provided if writing only when triggered"
            return True, (ValueError,)
        return w["triggers"], (TypeError, ValueError)   # no trigger status to record
    if fault == "no_global":
        # the global status is needed to record triggers or to decide a trigger-only kind
        needed = w["triggers"] or any(w[t] and to[t] for t in TABLES)
        return needed, (ValueError,)
    if fault in ("rays_len", "pols_len", "pol_inner"):
        return recorded(cfg, "rays", T), (ValueError,)
    if fault == "short_list":
        return recorded(cfg, "triggers", T) and max_waves >= 1, (IndexError, ValueError)
    raise AssertionError(fault)


# ---------------------------------------------------------------------------
# pyrex objects from specs

_CLS = {}


def _classes():
    if not _CLS:
        import pyrex
        from pyrex.detector import AntennaSystem

        class ThresholdAntenna(pyrex.Antenna):
            def __init__(self, position, threshold, **kw):
                super().__init__(position=position, **kw)
                self.threshold = threshold

            def trigger(self, signal):
                return bool(np.max(np.abs(signal.values)) > self.threshold)

        class DoublingSystem(AntennaSystem):
            def front_end(self, signal):
                return pyrex.Signal(signal.times, 2 * signal.values,
                                    value_type=signal.value_type)

        class StubRay:
            """Only `_metadata` of a ray path object is used by the writer."""
            def __init__(self, meta):
                self._meta = meta

            @property
            def _metadata(self):
                return dict(self._meta)

        _CLS.update(antenna=ThresholdAntenna, system=DoublingSystem, ray=StubRay)
    return _CLS


def build_detector(specs):
    c = _classes()
    det = []
    for i, s in enumerate(specs):
        kw = dict(noisy=False)
        if s["noisy"]:
            kw = dict(noisy=True, freq_range=(100e6, 300e6), noise_rms=0.05 * (i + 1),
                      unique_noise_waveforms=3)
        ant = c["antenna"]((10.0 * i, -5.0 * i, -100.0 * (i + 1)), s["thr"], **kw)
        det.append(c["system"](ant) if s["kind"] == "system" else ant)
    return det


def _base_antenna(ant):
    while hasattr(ant, "antenna"):
        ant = ant.antenna
    return ant


def build_event(specs):
    """-> (Event, expected particle dicts in the event's own iteration order)"""
    import pyrex
    from pyrex.particle import Interaction
    objs = []
    for s in specs:
        pid = s["pid"]
        ident = {"int": pid, "name": PDG_NAME[pid],
                 "enum": pyrex.Particle.Type(pid)}[s["how"]]
        kw = {}
        if s["model"] == "base":
            kw["interaction_model"] = Interaction
        p = pyrex.Particle(particle_id=ident, vertex=list(s["vertex"]),
                           direction=list(s["direction"]), energy=s["energy"],
                           interaction_type=s["kind"], weight=s["forced"], **kw)
        p.interaction.inelasticity = s["y"]
        p.interaction.em_frac = s["em"]
        p.interaction.had_frac = s["had"]
        p.survival_weight = s["sw"]
        p.interaction_weight = s["iw"]
        objs.append(p)
    event = pyrex.Event([p for p, s in zip(objs, specs) if s["parent"] < 0])
    for k, s in enumerate(specs):
        if s["parent"] >= 0:
            event.add_children(objs[s["parent"]], objs[k] if k % 2 else [objs[k]])
    expected = []
    for p in event:
        s = specs[[o is p for o in objs].index(True)]
        sw = 1.0 if s["sw"] is None else s["sw"]
        iw = 1.0 if s["iw"] is None else s["iw"]
        expected.append({
            "particle_name": PDG_NAME[s["pid"]], "particle_id": float(s["pid"]),
            "vertex_x": s["vertex"][0], "vertex_y": s["vertex"][1], "vertex_z": s["vertex"][2],
            # the Particle object holds the normalised direction that is handed over
            "direction_x": float(p.direction[0]), "direction_y": float(p.direction[1]),
            "direction_z": float(p.direction[2]),
            "energy": s["energy"], "survival_weight": sw, "interaction_weight": iw,
            "weight": s["forced"] if s["forced"] is not None else sw * iw,
            "interaction_class": str(type(p.interaction)),
            "interaction_name": s["kind"], "interaction_kind": float(KIND_VALUE[s["kind"]]),
            "interaction_inelasticity": s["y"], "interaction_em_frac": s["em"],
            "interaction_had_frac": s["had"],
        })
    return event, expected


def _ray_meta(rv, e, i, j):
    meta = {key: rv * (k + 1) + 10.0 * i + 100.0 * j + 0.5 * e for k, key in enumerate(RAY_KEYS)}
    pol = [rv + i, j + 0.5, -rv - e]
    return meta, pol


def prepare(case, k, det):
    """Put event k's signals on the detector and build the arguments of add().

    Returns (event, kwargs of add, model record).  The record holds the data
    handed over: what the detector objects show right before the call.
    """
    import pyrex
    op = case["ops"][k]
    c = _classes()
    np.random.seed((case["seed"] + 7919 * k) % 2**32)
    for i, ant in enumerate(det):
        ant.clear(reset_noise=op["reset_noise"])
        base = _base_antenna(ant)
        for j in range(op["nsig"][i]):
            npts = 2 + (3 * i + 2 * j + k) % 5
            times = 1e-8 * j + 1e-9 * i + 1e-9 * np.arange(npts)
            values = op["amp"] * (((np.arange(npts) * 7 + j * 3 + i * 5 + k) % 11) - 5) / 5.0
            base.signals.append(pyrex.Signal(times, values))
    event, particles = build_event(op["particles"])
    waves = [[(np.array(w.times, dtype=float), np.array(w.values, dtype=float))
              for w in ant.all_waveforms] for ant in det]
    atrig = [[bool(ant.trigger(w)) for w in ant.all_waveforms] for ant in det]
    noise = []
    for ant in det:
        nm = _base_antenna(ant)._noise_master
        noise.append(([], [], []) if nm is None else
                     (np.array(nm.freqs, dtype=float), np.array(nm.amps, dtype=float),
                      np.array(nm.phases, dtype=float)))
    max_waves = max(len(w) for w in waves)
    nray = op["nray"] if op["nray"] is not None else op["nsig"]
    rays_model, ray_objs, pols = [], [], []
    for i in range(len(det)):
        metas = [_ray_meta(op["rv"], k, i, j) for j in range(nray[i])]
        ray_objs.append([c["ray"](m) for m, _ in metas])
        pols.append([list(p) for _, p in metas])
        rays_model.append([dict(m, polarization_x=p[0], polarization_y=p[1],
                                polarization_z=p[2]) for m, p in metas])
    trig = op["trig"]
    if trig["form"] == "bool":
        targ, extras = trig["global"], []
    else:
        extras = [(e["key"], e["val"]) for e in trig["extras"]]
        targ = {"global": trig["global"]}
        targ.update({key: (list(val) if isinstance(val, list) else val) for key, val in extras})
    T = trig["global"]
    fault = op["fault"]
    kwargs = dict(triggered=targ, ray_paths=ray_objs, polarizations=pols,
                  events_thrown=op["thrown"])
    if fault == "no_rays":
        kwargs["ray_paths"] = None
    elif fault == "no_pols":
        kwargs["polarizations"] = None
    elif fault == "trig_none":
        kwargs["triggered"], T, extras = None, None, []
    elif fault == "no_global":
        targ = dict(targ) if isinstance(targ, dict) else {}
        targ.pop("global", None)
        targ.setdefault("x", False)
        kwargs["triggered"], T = targ, None
        extras = [(key, val) for key, val in targ.items()]
    elif fault == "rays_len":
        kwargs["ray_paths"] = ray_objs + [[]] if k % 2 else ray_objs[:-1]
    elif fault == "pols_len":
        kwargs["polarizations"] = pols + [[]] if k % 2 else pols[:-1]
    elif fault == "pol_inner":
        bad = [list(p) for p in pols]
        bad[k % len(det)] = bad[k % len(det)] + [[0.0, 0.0, 1.0]]
        kwargs["polarizations"] = bad
    elif fault == "short_list":
        if max_waves >= 1:
            targ = dict(targ) if isinstance(targ, dict) else {"global": bool(targ)}
            targ["x"] = [True] * (max_waves - 1)
            kwargs["triggered"] = targ
            extras = [(key, val) for key, val in targ.items() if key != "global"]
        else:
            fault = None      # cannot be malformed without a waveform
    record = dict(k=k, T=T, particles=particles, waves=waves, atrig=atrig, noise=noise,
                  rays=rays_model, extras=extras, thrown=op["thrown"], fault=fault,
                  max_waves=max_waves)
    return event, kwargs, record


def writer_kwargs(cfg):
    return dict(write_particles=True, write_triggers=cfg["write_triggers"],
                write_antenna_triggers=cfg["write_antenna_triggers"],
                write_rays=cfg["write_rays"], write_noise=cfg["write_noise"],
                write_waveforms=cfg["write_waveforms"],
                require_trigger=cfg["require_trigger"])


def write_history(case, path, sessions=None, modes=None):
    """Write the history; `sessions` = op-index ends of the append sessions.

    Returns (records of accepted adds, log of every op).
    """
    from pyrex.io import File
    cfg = case["config"]
    det = build_detector(case["detector"])
    ops = case["ops"]
    ends = list(sessions) if sessions else [len(ops)]
    records, log = [], []
    start = 0
    for s, end in enumerate(ends):
        mode = "w" if s == 0 else modes[s - 1]
        writer = File(path, mode, **writer_kwargs(cfg))
        writer.open()
        try:
            writer.set_detector(det)
            for k in range(start, end):
                event, kwargs, record = prepare(case, k, det)
                raises, types = must_reject(cfg, record["fault"], record["T"],
                                            record["max_waves"])
                try:
                    writer.add(event, **kwargs)
                except (ValueError, TypeError, IndexError) as e:
                    if not raises:
                        raise
                    require(isinstance(e, types),
                            "[raises] op %d (%s): rejected with %s(%s), documented error is %s",
                            k, record["fault"], type(e).__name__, e,
                            "/".join(t.__name__ for t in types))
                    log.append(dict(k=k, accepted=False, fault=record["fault"],
                                    error=type(e).__name__))
                else:
                    require(not raises, "[raises] op %d: add() accepted a malformed call (%s) "
                            "that must be rejected", k, record["fault"])
                    log.append(dict(k=k, accepted=True, fault=record["fault"], error=None))
                    records.append(record)
        finally:
            writer.close()
        start = end
    return records, log


# ---------------------------------------------------------------------------
# what must be readable (model -> expectation)


def expected_event(cfg, r):
    T = r["T"]
    nant = len(r["waves"])
    exp = {"particles": r["particles"]}
    exp["triggered"] = bool(T) if recorded(cfg, "triggers", T) else None
    rows = None
    if recorded(cfg, "triggers", T):
        include = recorded(cfg, "antenna_triggers", T)
        if include or r["extras"]:
            rows = []
            for j in range(r["max_waves"]):
                s = set()
                if include:
                    s.update("antenna_%d" % i for i in range(nant)
                             if j < len(r["atrig"][i]) and r["atrig"][i][j])
                for key, val in r["extras"]:
                    if (val[j] if isinstance(val, list) else val):
                        s.add(key)
                rows.append(sorted(s))
    exp["components"] = rows
    exp["rays"] = (r["rays"] if recorded(cfg, "rays", T)
                   and max(len(x) for x in r["rays"]) > 0 else None)
    exp["noise"] = r["noise"] if recorded(cfg, "noise", T) else None
    exp["waveforms"] = (r["waves"] if recorded(cfg, "waveforms", T)
                        and r["max_waves"] > 0 else None)
    return exp


def file_has(expected):
    """Which kinds of data the file holds at all (rows of some accepted event)."""
    return dict(
        particles=any(e["particles"] for e in expected),
        triggers=any(e["triggered"] is not None for e in expected),
        components=any(e["components"] for e in expected),
        rays=any(e["rays"] is not None for e in expected),
        noise=any(e["noise"] is not None for e in expected),
        waveforms=any(e["waveforms"] is not None for e in expected))


# ---------------------------------------------------------------------------
# observation through the public reader


def _unsaved(exc):
    return "not saved" in str(exc)


def _plain(v):
    if isinstance(v, (str, np.str_)):
        return str(v)
    return float(v)


def observe(ev, nant):
    """JSON-like summary of everything the event accessors return."""
    out = {}
    try:
        info = ev.get_particle_info()
        out["particles"] = [{k: _plain(v) for k, v in d.items()} for d in info]
    except ValueError as e:
        if not _unsaved(e):
            raise
        out["particles"] = None
    try:
        info = ev.get_rays_info()
        out["rays"] = [[{k: _plain(v) for k, v in d.items()} for d in row] for row in info]
    except ValueError as e:
        if not _unsaved(e):
            raise
        out["rays"] = None
    try:
        t = ev.triggered
        out["triggered"] = None if t is None else bool(t)
    except ValueError as e:
        if not _unsaved(e):
            raise
        out["triggered"] = "unsaved"
    try:
        out["components"] = {
            "all": sorted(ev.get_triggered_components()),
            "per": [sorted(ev.get_triggered_components(j)) for j in range(PROBE_RAYS)]}
    except ValueError as e:
        if not _unsaved(e):
            raise
        out["components"] = None
    try:
        nb = ev.noise_bases
        if len(nb) == 0:
            out["noise"] = []
        else:
            require(len(nb) == nant, "[noise] noise_bases has %d antenna entries, detector has %d",
                    len(nb), nant)
            out["noise"] = [[np.asarray(nb[i][c], dtype=float).tolist() for c in range(3)]
                            for i in range(nant)]
    except ValueError as e:
        if not _unsaved(e):
            raise
        out["noise"] = None
    try:
        wf = ev.get_waveforms()
        if len(wf) == 0:
            out["waveforms"] = []
        else:
            require(np.shape(wf)[1:] == (nant, 2), "[waveforms] get_waveforms() has shape %r "
                    "for %d antennas", np.shape(wf), nant)
            out["waveforms"] = [[[np.asarray(wf[j][i][c], dtype=float).tolist() for c in range(2)]
                                 for i in range(nant)] for j in range(len(wf))]
    except ValueError as e:
        if not _unsaved(e):
            raise
        out["waveforms"] = None
    return out


def check_accessors(ev, obs, nant, idx):
    """The attribute / antenna / ray-number forms of the accessors agree with
    the full forms (which the comparison with the model decides)."""
    P = obs["particles"]
    if P:
        en = ev.get_particle_info("energy")
        require([float(x) for x in en] == [p["energy"] for p in P],
                "[accessors] event %d: get_particle_info('energy') = %r", idx, list(en))
        vx = np.asarray(ev.get_particle_info("vertex"), dtype=float)
        require(vx.tolist() == [[p["vertex_x"], p["vertex_y"], p["vertex_z"]] for p in P],
                "[accessors] event %d: get_particle_info('vertex') = %r", idx, vx.tolist())
        dr = np.asarray(ev.get_particle_info("direction"), dtype=float)
        require(dr.tolist() == [[p["direction_x"], p["direction_y"], p["direction_z"]] for p in P],
                "[accessors] event %d: get_particle_info('direction') = %r", idx, dr.tolist())
        nm = ev.get_particle_info("particle_name")
        require([str(x) for x in nm] == [p["particle_name"] for p in P],
                "[accessors] event %d: get_particle_info('particle_name') = %r", idx, list(nm))
        ii = ev.get_particle_info("interaction_info")
        require([float(x) for x in ii["interaction_inelasticity"]]
                == [p["interaction_inelasticity"] for p in P]
                and [str(x) for x in ii["interaction_name"]] == [p["interaction_name"] for p in P],
                "[accessors] event %d: get_particle_info('interaction_info') = %r", idx, ii)
        first = P[0]["particle_name"]
        require(bool(ev.is_neutrino) == ("neutrino" in first),
                "[accessors] event %d: is_neutrino=%r for first particle %s", idx,
                ev.is_neutrino, first)
        require(ev.flavor == (first.split("_")[0] if "neutrino" in first else ""),
                "[accessors] event %d: flavor=%r for first particle %s", idx, ev.flavor, first)
        if "neutrino" in first:
            require(bool(ev.is_nubar) == (P[0]["particle_id"] < 0),
                    "[accessors] event %d: is_nubar=%r for id %r", idx, ev.is_nubar,
                    P[0]["particle_id"])
    R = obs["rays"]
    if R:
        tof = np.asarray(ev.get_rays_info("tof"), dtype=float)
        require(tof.tolist() == [[d["tof"] for d in row] for row in R],
                "[accessors] event %d: get_rays_info('tof') = %r", idx, tof.tolist())
        pol = np.asarray(ev.get_rays_info("polarization"), dtype=float)
        require(pol.tolist() == [[[d["polarization_x"], d["polarization_y"], d["polarization_z"]]
                                  for d in row] for row in R],
                "[accessors] event %d: get_rays_info('polarization') = %r", idx, pol.tolist())
    W = obs["waveforms"]
    if W:
        def plain(a):
            return [np.asarray(x, dtype=float).tolist() for x in a]
        for i in range(nant):
            col = ev.get_waveforms(antenna_id=i)
            require([plain(x) for x in col] == [W[j][i] for j in range(len(W))],
                    "[accessors] event %d: get_waveforms(antenna_id=%d) differs from "
                    "get_waveforms()[:, %d]", idx, i, i)
        for j in range(len(W) + 1):
            row = ev.get_waveforms(waveform_type=j)
            want = W[j] if j < len(W) else []
            require([plain(x) for x in row] == want,
                    "[accessors] event %d: get_waveforms(waveform_type=%d) differs from "
                    "get_waveforms()[%d]", idx, j, j)
        require(plain(ev.get_waveforms(antenna_id=nant - 1, waveform_type="direct"))
                == W[0][nant - 1],
                "[accessors] event %d: get_waveforms(%d, 'direct') differs", idx, nant - 1)
    C = obs["components"]
    if C is not None:
        require(sorted(ev.get_triggered_components("direct")) == C["per"][0]
                and sorted(ev.get_triggered_components("reflected")) == C["per"][1],
                "[accessors] event %d: get_triggered_components('direct'/'reflected') differ "
                "from ray numbers 0/1", idx)


# ---------------------------------------------------------------------------
# comparison of one event with its expectation (exact: float64 is stored as is)


def _nothing(part, idx, obs, has, label):
    """The options say `part` is not recorded for this event."""
    if obs is None or obs == "unsaved":
        require(not has, "[%s] event %d: reader says %s data was not saved in this file, "
                "but other events recorded some", part, idx, label)
        return
    require(obs == [] or obs is None, "[%s] event %d: nothing was to be recorded for this "
            "event, read back %r", part, idx, obs)


def cmp_particles(idx, exp, obs, has):
    want = exp["particles"]
    got = obs["particles"]
    require(got is not None, "[particles] event %d: reader says particle data was not saved", idx)
    require(len(got) == len(want), "[particles] event %d: %d particles recorded, %d read back "
            "(recorded names %r, read %r)", idx, len(want), len(got),
            [p["particle_name"] for p in want], [p.get("particle_name") for p in got])
    for n, (w, g) in enumerate(zip(want, got)):
        require(set(w) == set(g), "[particles] event %d particle %d: columns %r, expected %r",
                idx, n, sorted(g), sorted(w))
        for key in w:
            require(g[key] == w[key], "[particles] event %d particle %d: %s = %r, recorded %r",
                    idx, n, key, g[key], w[key])


def cmp_rays(idx, exp, obs, has):
    want, got = exp["rays"], obs["rays"]
    if want is None:
        return _nothing("rays", idx, got, has["rays"], "ray")
    require(got is not None, "[rays] event %d: reader says ray data was not saved", idx)
    nant = len(want)
    J = max(len(x) for x in want)
    require(len(got) == J, "[rays] event %d: %d ray rows read back, antennas recorded %r rays",
            idx, len(got), [len(x) for x in want])
    for j in range(J):
        require(len(got[j]) == nant, "[rays] event %d ray %d: %d antenna entries for %d antennas",
                idx, j, len(got[j]), nant)
        for i in range(nant):
            if j >= len(want[i]):
                continue            # padding entry: only has to exist
            w, g = want[i][j], got[j][i]
            require(set(w) == set(g), "[rays] event %d ray %d antenna %d: columns %r, expected %r",
                    idx, j, i, sorted(g), sorted(w))
            for key in w:
                require(g[key] == w[key], "[rays] event %d ray %d antenna %d: %s = %r, "
                        "recorded %r", idx, j, i, key, g[key], w[key])


def cmp_triggered(idx, exp, obs, has):
    want, got = exp["triggered"], obs["triggered"]
    if want is None:
        if got == "unsaved":
            require(not has["triggers"], "[triggered] event %d: reader says trigger data was not "
                    "saved, but other events recorded it", idx)
            return
        require(got is None, "[triggered] event %d: no trigger status was to be recorded, "
                "read back %r", idx, got)
        return
    require(got is not None and got != "unsaved" and got == want,
            "[triggered] event %d: global trigger read back %r, recorded %r", idx, got, want)


def cmp_components(idx, exp, obs, has):
    want, got = exp["components"], obs["components"]
    if got is None:
        require(not has["components"], "[components] event %d: reader says Monte Carlo trigger "
                "data was not saved, but component rows were recorded (this event: %r)", idx, want)
        return
    rows = want or []
    for j in range(PROBE_RAYS):
        w = rows[j] if j < len(rows) else []
        require(got["per"][j] == w, "[components] event %d: get_triggered_components(%d) = %r, "
                "recorded %r (all rows recorded: %r)", idx, j, got["per"][j], w, rows)
    union = sorted(set(x for r in rows for x in r))
    require(got["all"] == union, "[components] event %d: get_triggered_components() = %r, "
            "recorded %r", idx, got["all"], union)


def cmp_noise(idx, exp, obs, has):
    want, got = exp["noise"], obs["noise"]
    if want is None:
        return _nothing("noise", idx, got, has["noise"], "noise")
    require(got is not None and got != [], "[noise] event %d: no noise bases read back, "
            "recorded for %d antennas", idx, len(want))
    for i, (w, g) in enumerate(zip(want, got)):
        for c, name in enumerate(["frequencies", "amplitudes", "phases"]):
            require(np.asarray(w[c], dtype=float).tolist() == g[c],
                    "[noise] event %d antenna %d: %s read back %r, recorded %r",
                    idx, i, name, g[c], np.asarray(w[c]).tolist())


def cmp_waveforms(idx, exp, obs, has):
    want, got = exp["waveforms"], obs["waveforms"]
    if want is None:
        return _nothing("waveforms", idx, got, has["waveforms"], "waveform")
    require(got is not None, "[waveforms] event %d: reader says waveform data was not saved", idx)
    nant = len(want)
    J = max(len(x) for x in want)
    require(len(got) == J, "[waveforms] event %d: %d waveform rows read back, antennas recorded "
            "%r waveforms", idx, len(got), [len(x) for x in want])
    for j in range(J):
        for i in range(nant):
            if j >= len(want[i]):
                continue            # padding entry: only has to exist
            t, v = want[i][j]
            require(got[j][i][0] == t.tolist() and got[j][i][1] == v.tolist(),
                    "[waveforms] event %d waveform %d antenna %d: read back times %r values %r, "
                    "recorded times %r values %r", idx, j, i, got[j][i][0], got[j][i][1],
                    t.tolist(), v.tolist())


COMPARE = dict(particles=cmp_particles, rays=cmp_rays, triggered=cmp_triggered,
               components=cmp_components, noise=cmp_noise, waveforms=cmp_waveforms)
ALL_PARTS = ["particles", "triggered", "components", "rays", "noise", "waveforms"]


def read_events(path, nant, mode, slice_range, count, accessors=False):
    """-> (len(file), observations of the first `count` events)."""
    from pyrex.io import File
    kw = {} if slice_range is None else dict(slice_range=slice_range)
    obs = []
    with File(path, "r", **kw) as f:
        n = len(f)
        if mode == "iter":
            for idx, ev in enumerate(f):
                if idx >= count:
                    break
                o = observe(ev, nant)
                if accessors:
                    check_accessors(ev, o, nant, idx)
                obs.append(o)
        else:
            for idx in range(min(count, n)):
                obs.append(observe(f[idx], nant))
    return n, obs


# ---------------------------------------------------------------------------
# case classes


def row_signature(cfg, r):
    e = expected_event(cfg, r)
    return (len(e["particles"]), 0 if e["rays"] is None else max(len(x) for x in e["rays"]),
            0 if not e["components"] else len(e["components"]),
            0 if e["waveforms"] is None else r["max_waves"])


def _late(entry):
    """Rejected by a check that is only reached after other kinds of data (the
    particles at least) have been dealt with -- as opposed to the two argument
    checks documented for add() itself."""
    if entry["accepted"]:
        return False
    return (entry["fault"] in ("rays_len", "pols_len", "pol_inner", "short_list", "no_global")
            or (entry["fault"] == "trig_none" and entry["error"] == "TypeError"))


def case_classes(case, records, log):
    cfg = case["config"]
    cl = set()
    rt = cfg["require_trigger"]
    cl.add("rt_list" if isinstance(rt, (list, str)) else ("rt_true" if rt else "rt_false"))
    if len(set(row_signature(cfg, r) for r in records)) >= 3:
        cl.add("varied_rows")
    if any(r["max_waves"] == 0 for r in records):
        cl.add("event_without_waveforms")
    if any(not r["T"] for r in records) and any(r["T"] for r in records):
        cl.add("mixed_triggers")
    if any(s["parent"] >= 0 for op in case["ops"] for s in op["particles"]):
        cl.add("particle_tree")
    if any(d["kind"] == "system" for d in case["detector"]):
        cl.add("antenna_system")
    if any(d["noisy"] for d in case["detector"]):
        cl.add("noisy")
    if case.get("slice_range") is not None:
        cl.add("chunked_read")
    acc = [l["accepted"] for l in log]
    if False in acc:
        cl.add("rejected")
        first_acc = acc.index(True) if True in acc else len(acc)
        last_acc = len(acc) - 1 - acc[::-1].index(True) if True in acc else -1
        if any(not a and first_acc < k < last_acc for k, a in enumerate(acc)):
            cl.add("rejected_between_accepted")
        if not acc[-1]:
            cl.add("rejected_last")
        if not acc[0]:
            cl.add("rejected_first")
        if any(_late(l) for l in log):
            cl.add("rejected_late")      # refused by a check that sits behind other kinds of data
    if any(l["fault"] and l["accepted"] for l in log):
        cl.add("malformed_but_unused")   # the options never look at the malformed argument
    return cl


def nontrivial(classes):
    return bool({"varied_rows", "rejected_between_accepted", "rt_list"} & set(classes))


# ---------------------------------------------------------------------------
# checks


class scratch:
    def __enter__(self):
        self.dir = tempfile.mkdtemp(prefix="pbt-C11-")
        return os.path.join(self.dir, "events.h5")

    def __exit__(self, *exc):
        shutil.rmtree(self.dir, ignore_errors=True)
        return False


def _late_reject_before(log, records, idx):
    """Was an add refused (behind already written data) before accepted event idx?"""
    k_evt = records[idx]["k"]
    return any(_late(l) and l["k"] < k_evt for l in log)


def make_roundtrip(parts, mode="iter", accessors=False, check_len=True):
    def check(case, rec):
        cfg = case["config"]
        nant = len(case["detector"])
        with scratch() as path:
            records, log = write_history(case, path)
            expected = [expected_event(cfg, r) for r in records]
            has = file_has(expected)
            n, obs = read_events(path, nant, mode, case.get("slice_range"), len(records),
                                 accessors=accessors)
        if check_len:
            require(n == len(records), "[len] len(file) = %d after %d accepted add() calls "
                    "(%d rejected)", n, len(records), len(log) - len(records))
        require(len(obs) == min(n, len(records)), "[len] %s yields %d events, file holds %d "
                "(accepted %d)", mode, len(obs), n, len(records))
        for idx, (e, o) in enumerate(zip(expected, obs)):
            for part in parts:
                try:
                    COMPARE[part](idx, e, o, has)
                except Violation as v:
                    if _late_reject_before(log, records, idx):
                        raise Violation(str(v) + " [after a rejected add]")
                    raise
        cl = case_classes(case, records, log)
        rec.case(case, nontrivial=nontrivial(cl), classes=cl)
    return check


def check_len_only(case, rec):
    from pyrex.io import File
    with scratch() as path:
        records, log = write_history(case, path)
        with File(path, "r") as f:
            n = len(f)
            m = sum(1 for _ in f)
    tail = 0
    for l in reversed(log):
        if l["accepted"]:
            break
        tail += 1
    note = ""
    if tail and n == len(records) + 1 and any(_late(l) for l in log[len(log) - tail:]):
        note = " [one event more, history ends with a call rejected after the particle table]"
    require(n == len(records), "[len] len(file) = %d after %d accepted and %d rejected add() "
            "calls (the last %d calls were rejected)%s", n, len(records),
            len(log) - len(records), tail, note)
    require(m == len(records), "[len] iteration yields %d events after %d accepted add() calls"
            "%s", m, len(records), note)
    cl = case_classes(case, records, log)
    rec.case(case, nontrivial="rejected" in cl, classes=cl)


def check_raises(case, rec):
    with scratch() as path:
        records, log = write_history(case, path)
    cl = case_classes(case, records, log)
    cl |= set("fault:" + l["fault"] for l in log if l["fault"] and not l["accepted"])
    rec.case(case, nontrivial="rejected" in cl, classes=cl)


def check_thrown(case, rec):
    from pyrex.io import File
    with scratch() as path:
        records, log = write_history(case, path)
        with File(path, "r") as f:
            total = int(f.total_events_thrown)
    want = sum(r["thrown"] for r in records)
    late = [case["ops"][l["k"]]["thrown"] for l in log if _late(l)]
    note = ""
    if late and total == want + sum(late):
        note = " [= accepted + calls rejected after the particle table]"
    require(total == want, "[thrown] total_events_thrown = %d, the accepted add() calls threw "
            "%r (sum %d); rejected calls carried %r%s", total, [r["thrown"] for r in records],
            want, [case["ops"][l["k"]]["thrown"] for l in log if not l["accepted"]], note)
    cl = case_classes(case, records, log)
    rec.case(case, nontrivial=len(records) >= 2, classes=cl)


def check_index_table(case, rec):
    """Raw /event_indices: every (start, length) lies inside its table and rows of
    different events are disjoint."""
    import h5py
    with scratch() as path:
        records, log = write_history(case, path)
        with h5py.File(path, "r") as f:
            idx = f["event_indices"][...]
            keys = [k.decode() if isinstance(k, bytes) else str(k)
                    for k in f["event_indices"].attrs["keys"]]
            rows = {}
            for key in keys:
                require(key in f, "[index] index column %r names no object of the file", key)
                obj = f[key]
                if isinstance(obj, h5py.Group):
                    rows[key] = min(obj["float"].shape[0], obj["str"].shape[0])
                else:
                    rows[key] = obj.shape[0]
    require(idx.ndim == 3 and idx.shape[1] == len(keys) and idx.shape[2] == 2,
            "[index] /event_indices has shape %r for %d tables", idx.shape, len(keys))
    require(idx.shape[0] >= len(records), "[index] %d index rows for %d accepted events",
            idx.shape[0], len(records))
    for c, key in enumerate(keys):
        used = []
        for e in range(idx.shape[0]):
            start, length = int(idx[e, c, 0]), int(idx[e, c, 1])
            require(0 <= start and 0 <= length and start + length <= rows[key],
                    "[index] event %d table %s: (start, length) = (%d, %d) but the table has %d "
                    "rows%s", e, key, start, length, rows[key],
                    " [index row left behind by a rejected add]" if e >= len(records) else "")
            if length:
                used.append((start, start + length, e))
        used.sort()
        for (a0, a1, ea), (b0, b1, eb) in zip(used[:-1], used[1:]):
            require(a1 <= b0, "[index] table %s: rows [%d,%d) of event %d overlap rows [%d,%d) "
                    "of event %d", key, a0, a1, ea, b0, b1, eb)
    # the particle rows addressed for an event are as many as its particles
    pc = keys.index("/monte_carlo_data/particles")
    for e, r in enumerate(records):
        if e < idx.shape[0]:
            require(int(idx[e, pc, 1]) == len(r["particles"]),
                    "[index] event %d addresses %d particle rows, %d particles recorded",
                    e, int(idx[e, pc, 1]), len(r["particles"]))
    cl = case_classes(case, records, log)
    cl.add("tables=%d" % len(keys))
    rec.case(case, nontrivial=nontrivial(cl), classes=cl)


def check_nowave(case, rec):
    cfg = case["config"]
    nant = len(case["detector"])
    with scratch() as path:
        records, log = write_history(case, path)
        n, obs = read_events(path, nant, "iter", None, len(records))
    probes = 0
    for idx, (r, o) in enumerate(zip(records, obs)):
        if r["max_waves"] or not recorded(cfg, "triggers", r["T"]):
            continue
        want = sorted(key for key, val in r["extras"] if val is True)
        if not want:
            continue
        probes += 1
        got = [] if o["components"] is None else o["components"]["all"]
        require(got == want, "[nowave] event %d (no waveform on any antenna): add() was given "
                "event-level component triggers %r = True, get_triggered_components() returns %r",
                idx, want, got)
    cl = case_classes(case, records, log)
    if probes:
        cl.add("probe")
    rec.case(case, nontrivial=probes > 0, classes=cl)


# ---------------------------------------------------------------------------
# classifiers of the known defects


def _msg(exc):
    return str(exc)


def classify_roundtrip(case, exc):
    m = _msg(exc)
    if m.startswith("[components]") and "antenna_" in m:
        rt = case["config"]["require_trigger"]
        if isinstance(rt, (list, str)) and "antenna_triggers" in ([rt] if isinstance(rt, str) else rt):
            return "antenna_trigger_column_mismatch"
    if isinstance(exc, KeyError) and "mc_triggers" in m and any(op["fault"] for op in case["ops"]):
        return "rejected_add_orphan_table_unreadable"
    if "[after a rejected add]" in m and not m.startswith("[len]"):
        return "rejected_add_orphan_rows_shift_later_events"
    return None


def classify_len(case, exc):
    m = _msg(exc)
    if m.startswith("[len]") and "[one event more, history ends with a call rejected" in m:
        return "rejected_add_leaves_phantom_event"
    return None


def classify_index(case, exc):
    m = _msg(exc)
    if m.startswith("[index]") and "[index row left behind by a rejected add]" in m:
        return "rejected_add_leaves_phantom_event"
    return None


def classify_thrown(case, exc):
    m = _msg(exc)
    if m.startswith("[thrown]") and "[= accepted + calls rejected after the particle table]" in m:
        return "rejected_add_counts_events_thrown"
    return None


def classify_nowave(case, exc):
    if _msg(exc).startswith("[nowave]"):
        return "event_level_component_trigger_lost_without_waveforms"
    return None


# ---------------------------------------------------------------------------

_RULE = ("writer configuration (5 write_* flags x require_trigger bool/str/any list) x 1-4 "
         "antennas/antenna systems (noisy or not) x history of add() calls (1-4 particles incl. "
         "trees, 0-3 waveforms and rays per antenna, bool/dict triggers with event-level and "
         "per-waveform extras); non-trivial = >=3 accepted events with different row counts, or "
         "a rejected add between accepted ones, or a require_trigger list")

PROPERTY = Property(
    "C11", "HDF5 write-read round trip returns each event's own data for every configuration",
    [
        SubCheck("particles", history_cases(), make_roundtrip(["particles"], accessors=True),
                 quick=160, thorough=8000,
                 rule=_RULE + "; compares len(file) and all particle columns (dict and "
                 "attribute forms) of every event",
                 floors={"varied_rows": 0.2, "particle_tree": 0.3, "rt_list": 0.2,
                         "chunked_read": 0.1}),
        SubCheck("triggers", history_cases(focus="triggers"),
                 make_roundtrip(["triggered", "components"], accessors=True),
                 quick=200, thorough=10000,
                 rule=_RULE + "; global trigger and triggered components per ray number and "
                 "for the whole event",
                 floors={"mixed_triggers": 0.25, "rt_list": 0.3, "event_without_waveforms": 0.2},
                 classify=classify_roundtrip, shrink_cap=(60, 300)),
        SubCheck("rays", history_cases(focus="rays"), make_roundtrip(["rays"], accessors=True),
                 quick=160, thorough=8000,
                 rule=_RULE + "; ray metadata + polarization per ray x antenna (recorded "
                 "entries; padding entries only have to exist)",
                 floors={"varied_rows": 0.2, "mixed_triggers": 0.18}),
        SubCheck("noise_waveforms", history_cases(focus="noise_waveforms"),
                 make_roundtrip(["noise", "waveforms"], accessors=True),
                 quick=160, thorough=8000,
                 rule=_RULE + "; noise bases and waveforms (times and values) of every antenna",
                 floors={"noisy": 0.22, "antenna_system": 0.2, "mixed_triggers": 0.3}),
        SubCheck("index_table", history_cases(faults=True), check_index_table,
                 quick=160, thorough=8000,
                 rule=_RULE + " with malformed add() calls interleaved; raw /event_indices: "
                 "every (start,length) inside its table, rows of different events disjoint, "
                 "particle row count per event",
                 floors={"rejected_late": 0.15, "rejected_between_accepted": 0.08},
                 classify=classify_index, shrink_cap=(60, 300)),
        SubCheck("reject_raises", history_cases(faults=True), check_raises,
                 quick=200, thorough=10000,
                 rule=_RULE + " with malformed add() calls (missing rays/polarizations, "
                 "triggered=None, dict without 'global', ray/polarization length mismatches, "
                 "per-waveform list too short): rejected exactly when the options need the "
                 "malformed argument, with the documented error type",
                 floors={"rejected": 0.4, "malformed_but_unused": 0.03, "rejected_late": 0.2}),
        SubCheck("reject_len", history_cases(faults=True), check_len_only,
                 quick=160, thorough=8000,
                 rule=_RULE + " with malformed add() calls; len(file) and the number of "
                 "iterated events equal the number of accepted calls",
                 floors={"rejected": 0.4, "rejected_between_accepted": 0.12},
                 classify=classify_len, shrink_cap=(60, 300)),
        SubCheck("reject_iter", history_cases(faults=True),
                 make_roundtrip(ALL_PARTS, check_len=False),
                 quick=160, thorough=8000,
                 rule=_RULE + " with malformed add() calls; all data of every accepted event "
                 "by sequential iteration",
                 floors={"rejected": 0.4},
                 classify=classify_roundtrip, shrink_cap=(60, 300)),
        SubCheck("reject_index", history_cases(faults=True, slice_ranges=(None,)),
                 make_roundtrip(ALL_PARTS, mode="index", check_len=False),
                 quick=160, thorough=8000,
                 rule=_RULE + " with malformed add() calls; all data of every accepted event "
                 "by integer indexing file[i]",
                 floors={"rejected": 0.4, "rejected_late": 0.2},
                 classify=classify_roundtrip, shrink_cap=(60, 300)),
        SubCheck("thrown", history_cases(faults=True), check_thrown,
                 quick=160, thorough=8000,
                 rule=_RULE + " with malformed add() calls; total_events_thrown equals the sum "
                 "of events_thrown of the accepted calls",
                 floors={"rejected": 0.2},
                 classify=classify_thrown, shrink_cap=(60, 300)),
        SubCheck("components_nowave", history_cases(nowave_probe=True, max_ops=4), check_nowave,
                 quick=120, thorough=6000,
                 rule="histories in which one event has no waveform on any antenna and carries "
                 "a true event-level component trigger; non-trivial = the trigger record of "
                 "that event is written",
                 classify=classify_nowave, shrink_cap=(60, 300)),
    ],
    assumptions=[
        "write_particles=True and 'particles' is never in a require_trigger list (the statement "
        "quantifies over option sets that record particles; the reader cannot open a file "
        "without a particle table)",
        "ray paths are duck-typed objects exposing the `_metadata` mapping of the real ray path "
        "classes (the writer uses nothing else); antennas are Antenna subclasses with a threshold "
        "trigger, antenna systems double the signal in their front end",
        "signals are cleared from the detector before every event (as the event kernel does)",
        "a malformed add() call is expected to be rejected exactly when the chosen options make "
        "the writer use the malformed argument",
        "float64 data are compared exactly (HDF5 stores them unchanged)",
        "total_events_thrown is treated as data that a rejected add() must not disturb",
    ],
    design_ref="3/C11",
)
